#!/bin/bash
# usage: tools/seeded_confirm.sh <property> <n> [<id-number>]  (uses /tmp/mut/<property>/deliver/mut<n>.diff, demo<n>.rs;
# files the change as seeded/<property>-<id-number>, default <n>)
# Confirms in the scratch worktree: patch applies, existing tests pass with it, demo fails with it,
# demo passes without it; then files the mutation under /verif/seeded/<property>-<n>/.
set -u
P=$1; N=$2; O=${3:-$2}; D=/tmp/mut/$P
cd $D || exit 2
git checkout -q -- . ; rm -f tests/seeded_demo.rs
git apply --check deliver/mut$N.diff || { echo "patch does not apply"; exit 2; }
git apply deliver/mut$N.diff
suite=$(cargo test --offline 2>&1)
exist_fail=$(echo "$suite" | grep -E "^test " | grep -c FAILED)
exist_pass=$(echo "$suite" | grep -E "^test result: ok" | wc -l)
cp deliver/demo$N.rs tests/seeded_demo.rs
# demo result with the change
with=$(cargo test --offline --test seeded_demo 2>&1 | grep -E "^test result" | tail -1)
git checkout -q -- src
without=$(cargo test --offline --test seeded_demo 2>&1 | grep -E "^test result" | tail -1)
rm -f tests/seeded_demo.rs
echo "existing tests failing with change: $exist_fail (ok result lines: $exist_pass)"
echo "demo with change   : $with"
echo "demo without change: $without"
ok=0
echo "$with" | grep -q "FAILED" && echo "$without" | grep -q "test result: ok" && [ "$exist_fail" = "0" ] && ok=1
if [ $ok = 1 ]; then
  T=/verif/seeded/$P-$O; mkdir -p $T
  cp deliver/mut$N.diff $T/patch.diff; cp deliver/demo$N.rs $T/demo.rs
  [ -f deliver/NOTES.md ] && cp deliver/NOTES.md $T/NOTES.md
  echo "CONFIRMED -> $T"
else
  echo "NOT CONFIRMED"
fi
