#!/usr/bin/env python3
"""For every 'fix:' commit recorded in known_findings.json: put the defect back (reverse-apply the
commit to /repo's working tree), run the quick checks of the properties it belongs to, expect at
least one of them to exit 1 with a VIOLATION line, and restore the tree.  Writes
/verif/seeded/REVERT_LOG.json.  usage: tools/revert_check.py [commit ...]"""
import json, subprocess, sys, os, time
ROOT = os.path.dirname(os.path.dirname(os.path.abspath(__file__)))
k = json.load(open(os.path.join(ROOT, "known_findings.json")))
want = set(sys.argv[1:])
log = []
def sh(*a, **kw):
    return subprocess.run(a, capture_output=True, text=True, **kw)
assert sh("git", "-C", "/repo", "status", "--porcelain", "--untracked-files=no").stdout.strip() == "", "/repo working tree is not clean"
for f in k["fixed"]:
    c = f["commit"]
    if want and c not in want:
        continue
    props = [f["property"]] + f.get("also", [])
    diff = sh("git", "-C", "/repo", "diff", f"{c}^", c).stdout
    r = subprocess.run(["git", "-C", "/repo", "apply", "-R", "--3way", "-"], input=diff, capture_output=True, text=True)
    if r.returncode != 0:
        sh("git", "-C", "/repo", "reset", "-q", "--hard", "HEAD")
        log.append({"commit": c, "line": f["line"], "result": "reverse patch does not apply to the current tree (later fixes changed the same lines)"})
        print(c, "SKIP (does not reverse-apply)")
        continue
    # must still pass the repo's own tests (it did before the fix)
    entry = {"commit": c, "line": f["line"], "checks": {}}
    fired = []
    for p in props:
        t0 = time.time()
        out = sh(os.path.join(ROOT, "check"), p, "--tier", "quick", cwd=ROOT)
        sigs = [l.split("[")[-1].split("]")[0] for l in out.stdout.splitlines() if l.startswith("VIOLATION")]
        entry["checks"][p] = {"exit": out.returncode, "violations": sigs[:6], "seconds": round(time.time() - t0, 1)}
        if out.returncode == 1:
            fired.append(p)
    entry["result"] = "detected by " + ", ".join(fired) if fired else "NOT DETECTED"
    print(c, entry["result"], {p: v["violations"][:2] for p, v in entry["checks"].items()})
    log.append(entry)
    sh("git", "-C", "/repo", "reset", "-q", "--hard", "HEAD")
    assert sh("git", "-C", "/repo", "status", "--porcelain", "--untracked-files=no").stdout.strip() == ""
os.makedirs(os.path.join(ROOT, "seeded"), exist_ok=True)
path = os.path.join(ROOT, "seeded", "REVERT_LOG.json")
old = json.load(open(path)) if os.path.exists(path) else []
done = {e["commit"] for e in log}
order = [f["commit"] for f in k["fixed"]]
merged = [e for e in old if e["commit"] not in done] + log
merged.sort(key=lambda e: order.index(e["commit"]) if e["commit"] in order else 999)
json.dump(merged, open(path, "w"), indent=1)
