#!/usr/bin/env python3
"""Regenerates /verif/MANIFEST.json from the table below (run after adding a check)."""
import json, os
ROOT = os.path.dirname(os.path.dirname(os.path.abspath(__file__)))
props = [json.loads(l) for l in open(os.path.join(ROOT, "properties.jsonl"))]

CLAIMS = {
 "C01": dict(
  text="Held on the executions observed: round trips in both orders for every catalogued invertible operator, parameter aspect and ellipsoid class, stand-alone, with inv, through macros and in pipelines; whole datum-shift-plus-projection pipelines; gridshift (1 and 2 bands) and deformation on harness-built grids inside their coverage; tolerances from the property text. Sampling, not exhaustive.",
  note="Trusts the harness reference formulas for ground distance (M, N radii) and the catalogue's transcription of each operator's documented domain.",
  technique="runtime monitoring: inverse-pair residual monitor over generated parameterisations and inputs",
  ref="DESIGN.md §2 C01"),
 "C02": dict(
  text="Held on the executions observed: per-tuple results are bit-identical between the whole set, singles, a random permutation, every chunk boundary (small sets) or random boundaries, a repetition on a fresh copy and after arbitrary histories of applies on the same handle; counts of elementary operators are additive; every supported container gives what the 4D route gives in the dimensions it stores.",
  note="Two routes inside one build (no external reference). For multi-step pipelines the container clause is checked with 4D containers only, because the container itself carries the intermediate results between steps (a 2D or f32 container legitimately loses what the next step needs).",
  technique="runtime monitoring: two-route bit-equality monitor over generated sets, orders, chunkings, containers and apply histories",
  ref="DESIGN.md §2 C02"),
 "C03": dict(
  text="Held on the executions observed: pipelines generated from an AST (never parsed by the harness) equal the reference interpreter that applies each step as a stand-alone operator, forward and inverse, bit for bit and in count, for every modifier spelling on elementary, single-step-macro and pipeline-macro steps nested to depth 4 (thorough 8), including steps without an inverse (curvature, gravity) marked forward-only or left unmarked; the trace hook's executed/skipped step sequence and per-step counts equal the model's.",
  note="Trusts the stand-alone elementary operators (checked by C01/C02) and the 40-line reference interpreter; stack steps are excluded here (C12).",
  technique="runtime monitoring: executable reference model over generated programs, plus online trace-specification check on hooked step events",
  ref="DESIGN.md §2 C03"),
 "C04": dict(
  text="Held on the executions observed: invocations over generated macro DAGs (all binding forms, argument names in every lexical order, nested forwarding, inv in any position) behave as the reference expansion evaluated by the C03 interpreter, or both are errors; cyclic resource graphs (length 1-6, through pipelines) and chains to depth 50 return a value or an error without panic, abort, stack overflow (8 MiB and 2 MiB stacks) or confirmed hang.",
  note="Error::Recursion is accepted as the documented resource limit for chains that come near 100 nesting units (4 per macro level). An argument the caller cannot resolve is an error where it is demanded and counts as absent where a default exists (the statement leaves this corner open).",
  technique="runtime monitoring: reference expander + interpreter over generated macro sets; crash/hang monitor on cyclic and deep resource graphs",
  ref="DESIGN.md §2 C04"),
 "C05": dict(
  text="Held on the executions observed: at generated points of every projection's domain (all aspects, built-in and random ellipsoids) 4th-order finite differences of the forward operator satisfy the Cauchy-Riemann conditions (equal scale in all directions, orthogonal graticule images, positive orientation) to 1e-9 (1e-7 btmerc), laea has areal scale 1 to 5e-8, webmerc equals a*lon, a*asinh(tan(lat)); scale is k_0 on the central meridian / equator / standard parallels / centre, unity at lat_ts, the central-meridian northing is the scaled quadrature arc from lat_0, and the false origin maps from the centre; the library's Jacobian::factors agrees.",
  note="A conformal map with given boundary values is unique, so no external reference implementation is needed; the stencil steps are chosen so truncation and round-off stay two orders below the tolerances (DESIGN §2 C05), and the conformality tolerance adds the rounding the stencil's inputs can carry (64 ulp of the plane coordinate over the arm length: 1e-11 at mid latitudes, some 1e-9 within a degree of a pole). utm/butm on the unit sphere are skipped (500 km false easting leaves no digits).",
  technique="runtime monitoring: differential invariant monitor (finite-difference conformality / equal-area identities) plus reference values on defining lines",
  ref="DESIGN.md §2 C05"),
 "C06": dict(
  text="Held on the executions observed (table part exhaustive over all 47 entries): every table name instantiates (biaxial and triaxial) with the published a and 1/f, derived parameters meet their definitions, cartesian/geographic invert each other (1 cm) and match the defining formula, h=0 points satisfy the ellipsoid equation, direct and inverse geodesics are consistent, symmetric, reduce to quadrature meridian arcs, equatorial arcs and great circles, all six auxiliary latitudes are odd, increasing, fix 0 and the poles, round-trip to 1e-12 and agree with closed forms/quadrature, meridian distance and latitude are mutual inverses.",
  note="One open known finding: the rectifying latitude is returned scaled by Qn (pinned by a unit test, see known_findings.json). Geodesic distances are limited to 19000 km (scaled with a) and non-converged results (iteration count 1000) are excluded as documented. Published table transcribed from PROJ's ellps list.",
  technique="runtime monitoring: independent reference formulas (closed forms, Gauss-Legendre quadrature, published table) as oracles over generated ellipsoids and points; finite table enumerated",
  ref="DESIGN.md §2 C06"),
 "C07": dict(
  text="Held on the executions observed: f(0) is the translation at the tuple's epoch, the linear part is orthogonal with det +1 in exact mode and equals the EPSG GN7-2 matrix of the declared convention, distances scale by 1+s, PV(r) and CF(-r) agree bit for bit in small-angle mode, scalar and list parameter forms agree bit for bit, the 4th element is untouched, dynamic sets with mixed (and NaN) epochs equal static operators evaluated at each tuple's epoch, t_obs equals giving each tuple that epoch, inverses meet their bounds, and molodensky stays within its bound of the cart|helmert|cart path for pairs of built-in ellipsoids.",
  note="Reference matrices and per-epoch parameters are computed in the harness from the parameter values it generated. Molodensky bound: 5 mm + (D²/a)/cos(lat) (+ 2·D·(e²+|h|/a) abridged).",
  technique="runtime monitoring: independent reference model (EPSG matrices, per-epoch static operators) and invariant monitor over generated parameter sets",
  ref="DESIGN.md §2 C07"),
 "C10": dict(
  text="Held on the executions observed: for every catalogued operator, grid operator and one-way operator, per tuple: the count never exceeds the set, an uncounted tuple always carries NaN (never unchanged or transformed-but-valid), in-domain tuples are counted and finite in both directions, elements the operator does not work on come back bit-identical, NaN in an input element (and in random subsets of elements) reaches every output element that observably depends on it, points outside grid coverage are NaN and uncounted (unchanged and counted with @null) on the shipped grids and on generated grids with oblong cells (half a cell of the axis's own spacing on each side), declared domain limits (tmerc strip inverse, laea disc, lcc opposite pole) are flagged, unsupported inverses return 0 and leave data bit-identical, and flat pipelines report the minimum of the per-step counts seen by the trace hook.",
  note="Dependency of output element j on input element i is observed on the operator itself (perturbing i changes j), so no hand-written dependency matrix is trusted. Whether a counted tuple may hold NaN for NaN input is not asserted (the statement only constrains uncounted tuples and declared domain limits).",
  technique="runtime monitoring: invariant monitor at the API boundary over in-domain, edge, far-outside and NaN-seeded tuples; hooked per-step counts",
  ref="DESIGN.md §2 C10"),
 "C11": dict(
  text="Held on everything enumerated: all 1920 from-only and 1920 to-only descriptors, acceptance/rejection of all 4096 four-letter words with 5 valid and 8 invalid suffixes, adapt to=X against adapt inv from=X, all 442 signed partial permutations of axisswap plus all 177 000 index lists of length 1-5 over -5..5, all 24x24 unit pairs for xy and z against the published PROJ factors and the unit tables from the hook (each published name exactly once); quick adds 20 000 random from/to pairs, thorough enumerates all 1920 x 1920 pairs (exhaustive).",
  note="The reference mapping is a table-driven transcription of Rumination 002 (a descriptor is a signed permutation of e n u f with an optional angular unit for the horizontal axes). Exact (bit) where no unit factor is involved, 2 ulp otherwise.",
  technique="runtime monitoring: executable reference model over an exhaustively enumerated finite space",
  category="exploration",
  ref="DESIGN.md §2 C11"),
 "C12": dict(
  text="Held on everything explored: the reference stack machine (self-tested against every example table of Rumination 002 at start-up) agrees with the library on operands, counts, per-step stack depth (trace hook) and on a second application of the same handle, in both directions and for operand sets of size 0, 1 and 3, for all programs of <= 2 instructions over the full instruction set (219 instructions, bare and after a full push; 3 instructions over a reduced alphabet in the thorough tier) and for random programs up to length 13 with value-changing steps; ill-formed sub-commands are rejected.",
  note="Programs in which swap meets fewer than two elements are generated but excluded from assertion (left unspecified by the property). Legacy pop underflow is modelled as documented by the code's contract: NaN in the element that could not be popped, count 0.",
  technique="runtime monitoring: executable reference model (abstract stack machine) over exhaustively enumerated short programs and random long ones; online check of hooked stack depth",
  ref="DESIGN.md §2 C12"),
 "C13": dict(
  text="Held on the executions observed: x_0/y_0 are added forward and removed inverse, lon_0 (lonc) in degrees equals shifting the input longitude, k_0 and the semi-major axis scale the unshifted plane linearly (1e-12 relative), utm/butm equal tmerc/btmerc with the UTM constants for all 60 zones and both hemispheres in both directions, merc on a sphere equals webmerc in both directions, lat_ts equals its k_0, one-parallel lcc equals two equal parallels, noop aliases leave hostile tuples bit-identical.",
  note="Pairs of differently parameterised instances inside one build; which projection accepts which parameter is read from the gamut hook.",
  technique="runtime monitoring: two-route agreement monitor over pairs of parameterisations",
  ref="DESIGN.md §2 C13"),
 "C14": dict(
  text="Held on the executions observed: tmerc vs btmerc within 3 degrees (1 mm, both directions, built-in ellipsoids), cart operator vs Ellipsoid::cartesian (bit) and ::geographic (1 mm), latitude/curvature/gravity/geodesic operators vs the trait methods (bit / 4 ulp), axisswap vs adapt (bit), unitconvert vs adapt (1 ulp), Minimal vs Plain (bit), series latitudes vs closed forms (1e-11 rad) and the series meridian arc vs quadrature (1e-6 m).",
  note="Two routes inside one build; the quadrature and closed forms are the harness's.",
  technique="runtime monitoring: two-route agreement monitor",
  ref="DESIGN.md §2 C14"),
 "C08": dict(
  text="Held on the executions observed: on harness-built Gravsoft grids (1-3 bands, angular and projected, 2-40 rows/columns, asymmetric node values) Grid::at reproduces nodes, stays within the four corners inside a cell, agrees with the harness bilinear model (4 ulp of f32), is continuous across cell borders, continues linearly within the half-cell margin and returns None beyond it; grids_at picks the first containing grid, then the first within the margin, and the null grid last, also through the gridshift and deformation operators over lists of two or three overlapping grids with @optional, missing and @null entries; harness-encoded NTv2 trees (1-5 sub grids, grand children, either byte order, arbitrary file order) resolve to the deepest sub grid; gridshift adds 2-band shifts and subtracts 1-band geoid heights forward (inverse the opposite), @optional and @null behave as documented, deformation integrates the ENU velocity rotated into XYZ over dt, and deflection is the finite difference of the geoid.",
  note="One open known finding: deformation in t_epoch mode applies the opposite sign of the documented equation (see known_findings.json). The harness encoders and the bilinear model are written from the format documentation, not from the decoders.",
  technique="runtime monitoring: executable reference model (bilinear interpolation, grid selection) over harness-generated grids, queries and operators",
  ref="DESIGN.md §2 C08"),
 "C09": dict(
  text="Held on the executions observed: no panic, abort or confirmed hang over grammar-generated and byte-mutated definitions (every operator name and gamut key from the hook), macros, PROJ text, hostile coordinates in both directions and direct calls of the ellipsoid/angular/tokenizer APIs, in debug-semantics and release-semantics builds.",
  note="'Never hangs' is restated as bounded progress: a case that burns 10 CPU-seconds is re-run alone for 20 more before it is called a hang. Trusts catch_unwind + the write-ahead log to attribute crashes.",
  technique="runtime monitoring: crash/hang monitor (write-ahead event log, catch_unwind, CPU-time watchdog, supervisor) over hostile workloads",
  ref="DESIGN.md §1.4, §2 C09"),
 "C15": dict(
  text="Held on the executions observed: harness-encoded Gravsoft grids (any comment/whitespace/line layout, 1-3 bands, angular or projected) and NTv2 files (both byte orders, 1-6 sub grids in any order, square and oblong cells) decode to the geometry and node values written, after the documented conventions, the two byte orders decode identically, and the shipped .gsb files equal a plain reading of their .gsa twins; a damage campaign (every 7th truncation length and every 5th header byte x 8 bits of every shipped file below 64 KiB in the quick tier, all of them in the thorough tier; random truncations, overwrites, splices, bit flips, structural damage of sub grid names/parents/counts/increments, degenerate Gravsoft headers, wrong decoder) followed by 96 queries per accepted file never panics, aborts, hangs or allocates more than 64 x input + 16 MiB, in debug-semantics and release-semantics builds.",
  note="Allocation is observed with a counting global allocator in the harness; out-of-bounds reads would surface as panics (safe Rust). Structural damage includes sub grids named NONE, cyclic and unknown parents, duplicate names.",
  technique="runtime monitoring: encode-decode-query round trip against a reference model, plus crash/hang/allocation monitor over a fault-injection campaign on file contents",
  category="fault_enumeration",
  ref="DESIGN.md §2 C15"),
 "C16": dict(
  text="Held on the executions observed: eight layout variants per generated AST (whitespace runs of blank/tab/CR/LF/CRLF and non-ASCII white space around = , | : < >, continuation colons, comments on own lines / trailing / with and without bars and look-alike parameters, modifiers prefix/infix/suffix and =true, subscript digits, </> sugar, empty steps) instantiate in Minimal and Plain to operators with the canonical text's behaviour (bit-identical both directions), step lists and per-step parameters (names, flags, naturals, integers, reals by bits, series, texts), for single steps and pipelines, and the omit_fwd/omit_inv flags of every step read back as written; normalize is idempotent; a registered user operator with every parameter kind reads back exactly what was written in 40 real / 22 integer spellings (decimal, exponent, sexagesimal with hemisphere letters, overflow, multi-byte, empty) or is rejected with BadParam/MissingParam naming the first offending parameter, defaults, last-of-repeated and ignored unknown keys included; every built-in numeric or flag parameter rejects an ill-typed value with BadParam naming it.",
  note="Well-formed means: steps start with a name; a value does not start or end with a separator (an empty value or a trailing comma/colon swallows the following word, which the generator therefore does not produce except at the end).",
  technique="runtime monitoring: two-route agreement over layout variants of one AST, plus executable model of the typing rules read back through the introspection API",
  ref="DESIGN.md §2 C16"),
 "C17": dict(
  text="Held on the executions observed: PROJ texts rendered from an AST (single steps and pipelines of 1-5 steps over utm, tmerc, merc, lcc, laea, cart, helmert, axisswap, unitconvert, noop, addone; + prefixes or not, any token order, blank/tab/LF/CRLF layout, comments, step and pipeline inv, omit_fwd/omit_inv, pipeline globals including a+rf and valueless flags, a+rf and k in steps) instantiate in Plain to the same operation as the reference Geodesy text written from the same AST without parsing: bit-identical results and counts both directions and equal step lists; the translation is idempotent; text without PROJ syntax is returned byte-identical, Geodesy text that merely mentions 'proj' keeps its behaviour (also as a pipeline step), init clauses and nested pipelines are refused with Error::Unsupported.",
  note="The reference translation implements the rules of the property statement (order kept, globals before locals, pipeline inv = reverse + toggle inv + exchange omit flags, a,rf -> ellps, k -> k_0).",
  technique="runtime monitoring: executable reference translation from a shared AST, differential against the library's translation at the behavioural level",
  ref="DESIGN.md §2 C17"),
 "C18": dict(
  text="Held on the executions observed: over generated histories (10-60 steps on 1-3 Minimal/Plain contexts) of register_op, register_resource, op, apply, steps, params, Plain::clear_grids and new contexts, every instantiation resolves as the registry model says (pipeline, user operator for colon-less names, macro for names with a colon incl. file based ones, built-in; unknown names are errors), handles are pairwise distinct, foreign and fresh handles are refused, and after every history step every live handle still has the behaviour (both directions), step list and parameters it had at instantiation; Plain reads stand-alone resource files and registers (several fenced items, similar names, item at end of file without terminator, LF/CRLF/CR) to exactly the expected text, run-time registrations first; in threaded runs (6 threads, shared &Plain for apply, private contexts instantiating grid operators, clear_grids, injected yields/sleeps between calls) every logged result equals the sequential fingerprint.",
  note="Schedules are sampled, not enumerated: the evidence reports the number of distinct interleavings of API calls seen (hash of the merged call order). The thorough command also runs a reduced threaded workload (3 threads x 4 API calls) under Miri with 32 scheduler seeds (data races, deadlocks, undefined behaviour, same result oracle); it is secondary evidence: when Miri cannot run the evidence says so and the verdict rests on the native runs.",
  technique="runtime monitoring: history checked against an executable registry model after every step; offline checker over per-thread event logs of a stress workload; Miri (many scheduler seeds) on a reduced slice in the thorough tier",
  ref="DESIGN.md §2 C18"),
 "C19": dict(
  text="Held on the executions observed: write/read round trips, bulk accessors, set_xy/xyz/xyzt, stomp for 15 container kinds plus a user container on the trait defaults (missing dimensions read 0 / NaN or the adapter's fixed values, Coor32 through f32); nth/set_nth out of range give NaN without crashing; typed, angular and bulk accessors, update, fill, new, scale, dot, hypot2/3 and + - * / agree with element-wise definitions on hostile values; ISO-6709 DDDMM.mmm / DDDMMSS.sss encodings, dms_to_dd, dm_to_dd, parse_sexagesimal, normalisation and the dm/dms operators agree with the formulas, on a lattice of [-720, 720] degrees (0.05 deg quick, 1 arc-second thorough) and at random with carries, |angle| < 1 degree and zero-degree components.",
  note="Reference definitions are evaluated in the harness in plain f64; 1e-10 degrees for angle conversions.",
  technique="runtime monitoring: independent reference definitions as oracle over generated values and a dense lattice",
  ref="DESIGN.md §2 C19"),
 "C20": dict(
  text="Held on the executions observed: kp, built from the working tree and run as a subprocess, prints exactly one line per coordinate line, in order, with the requested number of decimals, each value within half a unit of the last place of the library's result for that line (computed in-process by the same build), cut or extended to -D columns; blank lines, comment lines and trailing comments are skipped, sexagesimal input is read, missing height/time default to 0/NaN or --height/--time, --inv and --roundtrip (alone and together) print the inverse and the round trip residuals; without -D the widest coordinate line decides the dimension; stdin, one file and the same lines spread over two files give byte-identical output, also across the 25000-tuple batch boundary (24999/25000/25001 lines quick, up to 60001 thorough); empty input ends with status 0 and no output, lines with more than four columns are still one line, invalid operations and unreadable files (missing, a directory, bytes that are not UTF-8) end with a message and a non-zero status that is not a panic status; all lines of one run are printed in one format whichever internal batch they fall into.",
  note="One open known finding: without -D the estimated dimension can differ between the batches of one run (known_findings.json). The value of the default number of decimals is a documented guess and is not asserted, only that it is the same for all lines of a run. A kp process is called non-terminating only after 60 CPU-seconds.",
  technique="runtime monitoring: process-boundary differential against in-process library results, plus exit-status monitor",
  ref="DESIGN.md §2 C20"),
}

ENGINE_PROPS = sorted(CLAIMS)
m = {
 "version": 1,
 "setup_cmd": "./check --setup",
 "hooks": {
  "guard": "cargo feature 'verif' of the geodesy crate (off by default)",
  "enable": "the harness crate depends on geodesy = { path = \"/repo\", default-features = false, features = [\"with_plain\", \"verif\"] }; every check runs `cargo build --offline` first, which rebuilds /repo's working tree",
  "baseline_off_cmd": "cd /repo && cargo test --workspace --no-fail-fast --offline",
  "source_commits": ["7a4d449"],
  "add_only": True,
 },
 "engines": [{"name": "gverif", "path": "/verif/harness", "serves_properties": ENGINE_PROPS,
              "kind_free_text": "Rust worker (workload generators, reference models, monitors, write-ahead event log, CPU-time hang monitor) driven by the Python supervisor /verif/check"}],
 "checks": [],
 "notes": "Runtime monitoring family; see DESIGN.md. Exit 0 = held on everything observed, 1 = VIOLATION (replay file printed), 2 = INCONCLUSIVE (never on the unchanged tree).",
 "not_applicable": [],
}
for p in props:
    pid = p["id"]
    if pid in CLAIMS:
        c = CLAIMS[pid]
        m["checks"].append({
            "property_id": pid,
            "quick_cmd": f"./check {pid} --tier quick",
            "thorough_cmd": f"./check {pid} --tier thorough",
            "evidence_file": f"/verif/evidence/{pid}.json",
            "replay_cmd_template": f"./check {pid} --replay {{path}}",
            "engine": "gverif",
            "level_claimed": {"category": c.get("category", "exploration"), "text": c["text"], "design_ref": c["ref"]},
            "level_note": c["note"],
            "technique": c["technique"],
        })
    else:
        m["not_applicable"].append({"property_id": pid, "reason": "monitor not built yet (work in progress; the runtime-monitoring family applies, see DESIGN.md)"})
json.dump(m, open(os.path.join(ROOT, "MANIFEST.json"), "w"), indent=1)
print("claimed:", ", ".join(ENGINE_PROPS))
