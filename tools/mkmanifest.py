#!/usr/bin/env python3
"""Regenerates /verif/MANIFEST.json from the table below (run after adding a check)."""
import json, os
ROOT = os.path.dirname(os.path.dirname(os.path.abspath(__file__)))
props = [json.loads(l) for l in open(os.path.join(ROOT, "properties.jsonl"))]

CLAIMS = {
 "C01": dict(
  text="Held on the executions observed: round trips in both orders for every catalogued invertible operator, parameter aspect and ellipsoid class, stand-alone, with inv, through macros and in pipelines; tolerances from the property text. Sampling, not exhaustive.",
  note="Trusts the harness reference formulas for ground distance (M, N radii) and the catalogue's transcription of each operator's documented domain.",
  technique="runtime monitoring: inverse-pair residual monitor over generated parameterisations and inputs",
  ref="DESIGN.md §2 C01"),
 "C09": dict(
  text="Held on the executions observed: no panic, abort or confirmed hang over grammar-generated and byte-mutated definitions (every operator name and gamut key from the hook), macros, PROJ text, hostile coordinates in both directions and direct calls of the ellipsoid/angular/tokenizer APIs, in debug-semantics and release-semantics builds.",
  note="'Never hangs' is restated as bounded progress: a case that burns 10 CPU-seconds is re-run alone for 20 more before it is called a hang. Trusts catch_unwind + the write-ahead log to attribute crashes.",
  technique="runtime monitoring: crash/hang monitor (write-ahead event log, catch_unwind, CPU-time watchdog, supervisor) over hostile workloads",
  ref="DESIGN.md §1.4, §2 C09"),
}

ENGINE_PROPS = sorted(CLAIMS)
m = {
 "version": 1,
 "setup_cmd": "./check --setup",
 "hooks": {
  "guard": "cargo feature 'verif' of the geodesy crate (off by default)",
  "enable": "the harness crate depends on geodesy = { path = \"/repo\", default-features = false, features = [\"with_plain\", \"verif\"] }; every check runs `cargo build --offline` first, which rebuilds /repo's working tree",
  "baseline_off_cmd": "cd /repo && cargo test --workspace --no-fail-fast --offline",
  "source_commits": ["7a4d449"],
  "add_only": True,
 },
 "engines": [{"name": "gverif", "path": "/verif/harness", "serves_properties": ENGINE_PROPS,
              "kind_free_text": "Rust worker (workload generators, reference models, monitors, write-ahead event log, CPU-time hang monitor) driven by the Python supervisor /verif/check"}],
 "checks": [],
 "notes": "Runtime monitoring family; see DESIGN.md. Exit 0 = held on everything observed, 1 = VIOLATION (replay file printed), 2 = INCONCLUSIVE (never on the unchanged tree).",
 "not_applicable": [],
}
for p in props:
    pid = p["id"]
    if pid in CLAIMS:
        c = CLAIMS[pid]
        m["checks"].append({
            "property_id": pid,
            "quick_cmd": f"./check {pid} --tier quick",
            "thorough_cmd": f"./check {pid} --tier thorough",
            "evidence_file": f"/verif/evidence/{pid}.json",
            "replay_cmd_template": f"./check {pid} --replay {{path}}",
            "engine": "gverif",
            "level_claimed": {"category": c.get("category", "exploration"), "text": c["text"], "design_ref": c["ref"]},
            "level_note": c["note"],
            "technique": c["technique"],
        })
    else:
        m["not_applicable"].append({"property_id": pid, "reason": "monitor not built yet (work in progress; the runtime-monitoring family applies, see DESIGN.md)"})
json.dump(m, open(os.path.join(ROOT, "MANIFEST.json"), "w"), indent=1)
print("claimed:", ", ".join(ENGINE_PROPS))
