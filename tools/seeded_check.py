#!/usr/bin/env python3
"""Run the checks against every seeded breaking change under /verif/seeded/<id>/patch.diff:
apply to /repo's working tree, run the quick check of the property it targets and then (if that
stays silent) every other quick check and finally the thorough tier of the target, restore the tree.
Writes seeded/<id>/meta.json (keeps the hand-written fields) and seeded/SEEDED_LOG.json.
usage: tools/seeded_check.py [id ...]"""
import json, subprocess, sys, os, time, glob
ROOT = os.path.dirname(os.path.dirname(os.path.abspath(__file__)))
ALL = ["C%02d" % i for i in range(1, 21)]
def sh(*a, **kw):
    return subprocess.run(a, capture_output=True, text=True, **kw)
def clean():
    return sh("git", "-C", "/repo", "status", "--porcelain", "--untracked-files=no").stdout.strip() == ""
assert clean(), "/repo working tree is not clean"
ids = sys.argv[1:] or sorted(os.path.basename(d) for d in glob.glob(os.path.join(ROOT, "seeded", "C*-*")))
logp = os.path.join(ROOT, "seeded", "SEEDED_LOG.json")
log = json.load(open(logp)) if os.path.exists(logp) else {}
def run(p, tier):
    t0 = time.time()
    out = sh(os.path.join(ROOT, "check"), p, "--tier", tier, cwd=ROOT)
    sigs = [l.split("[")[-1].split("]")[0] for l in out.stdout.splitlines() if l.startswith("VIOLATION")]
    return {"exit": out.returncode, "violations": sigs[:8], "seconds": round(time.time() - t0, 1)}
for sid in ids:
    d = os.path.join(ROOT, "seeded", sid)
    target = sid.split("-")[0]
    r = sh("git", "-C", "/repo", "apply", os.path.join(d, "patch.diff"))
    if r.returncode != 0:
        print(sid, "patch does not apply:", r.stderr.strip()[:200]); continue
    res = {"target": target, "checks": {}}
    res["checks"][target + "/quick"] = run(target, "quick")
    caught = [target] if res["checks"][target + "/quick"]["exit"] == 1 else []
    if not caught:
        res["checks"][target + "/thorough"] = run(target, "thorough")
        if res["checks"][target + "/thorough"]["exit"] == 1:
            caught.append(target + " (thorough only)")
    # which other quick checks see it
    others = []
    for p in ALL:
        if p == target:
            continue
        if os.environ.get("SEEDED_ALL") or not caught:
            x = run(p, "quick")
            res["checks"][p + "/quick"] = x
            if x["exit"] == 1:
                others.append(p)
    res["caught_by"] = caught + others
    res["verdict"] = "caught" if res["caught_by"] else "MISSED"
    sh("git", "-C", "/repo", "checkout", "--", ".")
    assert clean()
    log[sid] = res
    json.dump(log, open(logp, "w"), indent=1)
    print(sid, res["verdict"], res["caught_by"], {k: v["violations"][:2] for k, v in res["checks"].items() if v["exit"] == 1})
