#!/bin/bash
# usage: tools/runall.sh [tier] [seed]   -- runs every registered check, prints one line each
tier=${1:-quick}; seed=${2:-1}
cd "$(dirname "$0")/.."
for p in C01 C02 C03 C04 C05 C06 C07 C08 C09 C10 C11 C12 C13 C14 C15 C16 C17 C18 C19 C20; do
  s=$(date +%s.%N)
  out=$(./check $p --tier $tier --seed $seed 2>&1); rc=$?
  e=$(date +%s.%N)
  printf "%s rc=%d %.1fs  %s\n" $p $rc $(echo "$e - $s" | bc) "$(echo "$out" | grep -E "^C[0-9]+ " | cut -c1-110)"
  echo "$out" | grep -E "^(VIOLATION|INCONCLUSIVE|KNOWN)" | cut -c1-200
done
