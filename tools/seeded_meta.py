#!/usr/bin/env python3
"""Writes seeded/<id>/meta.json from NOTES.md + SEEDED_LOG.json, and seeded/VALIDATION.md."""
import json, os, glob, re
ROOT = os.path.dirname(os.path.dirname(os.path.abspath(__file__)))
log = json.load(open(os.path.join(ROOT, "seeded", "SEEDED_LOG.json"))) if os.path.exists(os.path.join(ROOT, "seeded", "SEEDED_LOG.json")) else {}
rows = []
for d in sorted(glob.glob(os.path.join(ROOT, "seeded", "C*-*"))):
    sid = os.path.basename(d)
    notes = open(os.path.join(d, "NOTES.md")).read() if os.path.exists(os.path.join(d, "NOTES.md")) else ""
    # ids 1,2 come from the first round of sub-agents, 3,4 from the second; each round's NOTES.md
    # speaks of "mutation 1" and "mutation 2"
    n = str((int(sid.split("-")[1]) - 1) % 2 + 1)
    # the section of NOTES.md about this mutation
    parts = re.split(r"(?im)^#+\s*mutation\s*", notes)
    sec = next((p for p in parts if p.strip().startswith(n)), notes)[:1500]
    files = sorted(set(re.findall(r"^\+\+\+ b/(\S+)", open(os.path.join(d, "patch.diff")).read(), re.M)))
    r = log.get(sid, {})
    meta = {
        "id": sid,
        "breaks_property": sid.split("-")[0],
        "origin": "round %d; written by an independent sub-agent that saw only the property text and a scratch worktree of /repo" % ((int(sid.split("-")[1]) - 1) // 2 + 1),
        "files_changed": files,
        "what_it_needs_to_manifest": " ".join(sec.split())[:900],
        "confirmed_by": "tools/seeded_confirm.sh: patch applies to /repo HEAD; `cargo test --offline` passes with it; demo.rs (as tests/seeded_demo.rs) fails with it and passes without it",
        "checks_run": r.get("checks", {}),
        "caught_by": r.get("caught_by", []),
        "verdict": r.get("verdict", "not run yet"),
    }
    json.dump(meta, open(os.path.join(d, "meta.json"), "w"), indent=1)
    firing = "; ".join(f"{k}: {', '.join(v['violations'][:2])}" for k, v in r.get("checks", {}).items() if v.get("exit") == 1)
    rows.append(f"| {sid} | {', '.join(files)} | {r.get('verdict', '-')} | {', '.join(r.get('caught_by', []))} | {firing[:160]} |")
with open(os.path.join(ROOT, "seeded", "VALIDATION.md"), "w") as f:
    f.write("# Seeded breaking changes and which checks catch them\n\n| id | files | verdict | caught by | first signatures |\n|---|---|---|---|---|\n")
    f.write("\n".join(rows) + "\n")
    rl = os.path.join(ROOT, "seeded", "REVERT_LOG.json")
    if os.path.exists(rl):
        f.write("\n# Fix commits put back (tools/revert_check.py)\n\n| commit | what was fixed | result |\n|---|---|---|\n")
        for e in json.load(open(rl)):
            f.write(f"| {e['commit']} | {e['line'].split(' ', 3)[-1][:110]} | {e['result']} |\n")
print(len(rows), "seeded entries")
