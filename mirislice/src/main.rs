//! C18, secondary monitor: threads sharing a `Plain` context and the process-wide grid cache,
//! run under Miri (`-Zmiri-many-seeds`), which preempts at arbitrary points inside the library
//! rather than at API boundaries, and reports data races, deadlocks and undefined behaviour.
//! The oracle is the one of the native threaded workload: every result obtained concurrently
//! equals the result obtained sequentially before the threads started.
//!
//! Output: one line `MIRI-SLICE ok events=<n> order=<hash>` or `MIRI-SLICE VIOLATION <what>`.

use geodesy::prelude::*;
use std::sync::atomic::{AtomicU64, Ordering};

fn mix(a: u64, b: u64) -> u64 {
    let mut x = a ^ b.wrapping_mul(0x9E37_79B9_7F4A_7C15);
    x ^= x >> 31;
    x = x.wrapping_mul(0xBF58_476D_1CE4_E5B9);
    x ^ (x >> 29)
}

fn fingerprint(ctx: &Plain, op: OpHandle, pts: &[Coor4D]) -> (u64, usize) {
    let mut data = pts.to_vec();
    let n = ctx.apply(op, Fwd, &mut data).unwrap_or(usize::MAX);
    let mut h = 0u64;
    for c in &data {
        for x in c.0 {
            h = mix(h, if x.is_nan() { 0x7ff8_0000_0000_0000 } else { x.to_bits() });
        }
    }
    (h, n)
}

fn main() {
    let arg: u64 = std::env::args().nth(1).and_then(|s| s.parse().ok()).unwrap_or(1);
    let defs = [
        "gridshift grids=test.datum",
        "gridshift grids=5458_with_subgrid.gsb",
        "gridshift grids=test.geoid inv",
        "addone | m:t | utm zone=33",
    ];
    let pts: Vec<Coor4D> = (0..2).map(|i| Coor4D([(9.5 + i as f64 * 2.1).to_radians(), (55.0 + i as f64 * 1.3).to_radians(), 10.0, 2000.0])).collect();
    let mut shared = Plain::new();
    shared.register_resource("m:t", "addone inv");
    let mut handles = Vec::new();
    for d in defs {
        match shared.op(d) {
            Ok(op) => handles.push((d, op)),
            Err(e) => {
                println!("MIRI-SLICE VIOLATION instantiation of {d:?} failed: {e}");
                std::process::exit(1);
            }
        }
    }
    let seq: Vec<(u64, usize)> = handles.iter().map(|(_, op)| fingerprint(&shared, *op, &pts)).collect();
    let clock = AtomicU64::new(0);
    let nthreads = 3usize;
    let rounds = 4usize;
    type Log = Vec<(u64, usize, usize, u64, usize)>;
    let logs: Vec<Log> = std::thread::scope(|s| {
        let mut joins = Vec::new();
        for t in 0..nthreads {
            let (shared, handles, clock, pts) = (&shared, &handles, &clock, &pts);
            joins.push(s.spawn(move || {
                let mut log: Log = Vec::new();
                let mut own = Plain::new();
                let mut state = mix(arg, t as u64 + 1);
                for round in 0..rounds {
                    state = mix(state, round as u64);
                    let k = (state >> 8) as usize % handles.len();
                    match (t + (state & 3) as usize) % 3 {
                        0 => {
                            let fp = fingerprint(shared, handles[k].1, pts);
                            log.push((clock.fetch_add(1, Ordering::SeqCst), t, k, fp.0, fp.1));
                        }
                        1 => {
                            let k = k % (handles.len() - 1);
                            match own.op(handles[k].0) {
                                Ok(op) => {
                                    let fp = fingerprint(&own, op, pts);
                                    log.push((clock.fetch_add(1, Ordering::SeqCst), t, k, fp.0, fp.1));
                                }
                                Err(_) => log.push((clock.fetch_add(1, Ordering::SeqCst), t, k, 0, usize::MAX - 1)),
                            }
                        }
                        _ => {
                            Plain::clear_grids();
                            log.push((clock.fetch_add(1, Ordering::SeqCst), t, usize::MAX, 0, 0));
                        }
                    }
                }
                log
            }));
        }
        joins.into_iter().map(|j| j.join().unwrap_or_default()).collect()
    });
    let mut merged: Vec<(u64, usize, usize, u64, usize)> = logs.into_iter().flatten().collect();
    merged.sort();
    let mut order = 0u64;
    for e in &merged {
        order = mix(order, ((e.1 as u64) << 8) | (e.2 as u64 & 0xff));
        if e.2 == usize::MAX {
            continue;
        }
        if (e.3, e.4) != seq[e.2] {
            println!("MIRI-SLICE VIOLATION thread {} call on {:?} at logical time {}: result differs from the sequential one", e.1, handles[e.2].0, e.0);
            std::process::exit(1);
        }
    }
    for (k, (d, op)) in handles.iter().enumerate() {
        if fingerprint(&shared, *op, &pts) != seq[k] {
            println!("MIRI-SLICE VIOLATION shared handle {d:?} changed");
            std::process::exit(1);
        }
    }
    println!("MIRI-SLICE ok events={} order={order:016x}", merged.len());
}
