//! Generators of definition texts: hostile (C09) and well-formed with layout variants (C16/C17)

use crate::rng::Rng;
use geodesy::authoring::OpParameter;

pub const MODIFIERS: [&str; 3] = ["inv", "omit_fwd", "omit_inv"];

pub fn gamut_key(p: &OpParameter) -> &'static str {
    match p {
        OpParameter::Flag { key } => key,
        OpParameter::Natural { key, .. } => key,
        OpParameter::Integer { key, .. } => key,
        OpParameter::Real { key, .. } => key,
        OpParameter::Series { key, .. } => key,
        OpParameter::Text { key, .. } => key,
        OpParameter::Texts { key, .. } => key,
    }
}

pub fn gamut_kind(p: &OpParameter) -> &'static str {
    match p {
        OpParameter::Flag { .. } => "flag",
        OpParameter::Natural { .. } => "natural",
        OpParameter::Integer { .. } => "integer",
        OpParameter::Real { .. } => "real",
        OpParameter::Series { .. } => "series",
        OpParameter::Text { .. } => "text",
        OpParameter::Texts { .. } => "texts",
    }
}

const HOSTILE_VALUES: [&str; 68] = [
    "", "0", "-0", "1", "-1", "1e999", "-1e999", "nan", "NaN", "inf", "-inf", "infinity", "1e-320",
    "999999999999999999999999999999", "0.1", "1:2:3", "1:2:3N", "1:2:3:4", "1:30:36:0N", "-0:0:0:0:0", "1:2:3:4,5", "1:2:3S", "12:30W", "12°", "1°",
    "°", "é", "1é", "€", "𝐑", "$x", "$x(1)", "(1)", "$", "$(", "$()", "((", "))", "(", ")", "a,b",
    ",", ",,", "1,2,3", "1,2", "1,2,3,4,5", "true", "false", "TRUE", ":", "a:b", "a:b:c", "=",
    "==", "1,nan,3", "1.5", "-1.5", "90", "-90", "180", "360", "1e10", "0x10", "1_000", "+1", "1e",
    "e1", ".",
];

const ELLPS_VALUES: [&str; 16] = [
    "GRS80", "intl", "sphere", "unitsphere", "andrae", "foo", "1,2", "6378137,298.25", "0,0", "1,0",
    "nan,nan", "-1,300", "(1,2)", "(GRS80)", "6378137,", ",298",
];

const GRID_VALUES: [&str; 16] = [
    "test.datum", "test.geoid", "test.deformation", "5458.gsb", "5458_with_subgrid.gsb",
    "100800401.gsb", "@null", "null", "@missing.gsb", "missing.gsb", "test.datum,@null",
    "@missing.datum,test.datum", "test.geoid,test.datum", "another_test.deformation",
    "test_subset.datum,test.datum", "5458.gsa",
];

const WORDS: [&str; 12] = [
    "foo", "bar", "x", "y", "z", "_name", "ellps", "inv", "m:a", "m:b", "m:c", "é",
];

pub fn hostile_value(rng: &mut Rng, key: &str, kind: &str) -> String {
    if key.starts_with("ellps") && rng.chance(0.7) {
        return rng.pick(&ELLPS_VALUES).to_string();
    }
    if key == "grids" && rng.chance(0.8) {
        return rng.pick(&GRID_VALUES).to_string();
    }
    if (kind == "text" || kind == "texts") && rng.chance(0.25) {
        // short words with a multi-byte character at every byte offset (fixed-width slicing of
        // user text: descriptors, unit names, ...)
        const WORDS8: [&str; 8] = ["neuf_deg", "enuf", "neut_rad", "deg", "km", "us-ft", "position_vector", "wsdp_gon"];
        let base: &str = WORDS8[rng.below(WORDS8.len())];
        let mut s: Vec<char> = base.chars().collect();
        for _ in 0..1 + rng.below(2) {
            let at = rng.below(s.len() + 1);
            let ch = *rng.pick(&['é', '€', '𝐑', '°', 'ß']);
            if rng.chance(0.5) && at < s.len() {
                s[at] = ch;
            } else {
                s.insert(at, ch);
            }
        }
        if rng.chance(0.5) {
            // bring the byte length back to that of a well-formed word
            while s.iter().map(|c| c.len_utf8()).sum::<usize>() > base.len() && s.len() > 1 {
                let at = rng.below(s.len());
                if s[at].is_ascii() {
                    s.remove(at);
                } else if s.iter().all(|c| !c.is_ascii()) {
                    break;
                }
            }
        }
        return s.into_iter().collect();
    }
    match rng.below(10) {
        0..=4 => rng.pick(&HOSTILE_VALUES).to_string(),
        5 => format!("{}", rng.hostile_f64()),
        6 => format!("{}", rng.int(-100, 100)),
        7 => match kind {
            "series" | "texts" => {
                let n = rng.below(6);
                (0..n)
                    .map(|_| format!("{}", rng.int(-5, 9)))
                    .collect::<Vec<_>>()
                    .join(",")
            }
            _ => format!("{}", rng.range(-400.0, 400.0)),
        },
        8 => "9".repeat(1 + rng.below(400)),
        _ => {
            let a = rng.pick(&HOSTILE_VALUES).to_string();
            let b = rng.pick(&HOSTILE_VALUES).to_string();
            a + &b
        }
    }
}

fn ws(rng: &mut Rng) -> &'static str {
    *rng.pick(&[" ", " ", " ", "  ", "\t", "\n", "\r\n", " \n: "])
}

/// A step over the given operator table: name, hostile parameters, modifiers anywhere
pub fn hostile_step(rng: &mut Rng, ops: &[(&'static str, Vec<OpParameter>)]) -> String {
    let mut parts: Vec<String> = Vec::new();
    let (name, gamut) = rng.pick(ops);
    match rng.below(12) {
        0 => parts.push(rng.pick(&WORDS).to_string()),
        1 => {}
        _ => parts.push(name.to_string()),
    }
    let n = rng.below(gamut.len().min(6) + 2);
    for _ in 0..n {
        let (key, kind) = if !gamut.is_empty() && rng.chance(0.85) {
            let p = rng.pick(gamut);
            (gamut_key(p).to_string(), gamut_kind(p))
        } else {
            (rng.pick(&WORDS).to_string(), "text")
        };
        match rng.below(12) {
            0 => parts.push(key),
            1 => parts.push(format!("{key}=")),
            2 => parts.push(format!("={}", hostile_value(rng, &key, kind))),
            3 => parts.push(format!("{key} = {}", hostile_value(rng, &key, kind))),
            _ => parts.push(format!("{key}={}", hostile_value(rng, &key, kind))),
        }
    }
    // modifiers: none, some, or nothing but modifiers
    match rng.below(10) {
        0 => {
            parts.clear();
            for _ in 0..1 + rng.below(3) {
                parts.push(rng.pick(&MODIFIERS).to_string());
            }
        }
        1..=3 => {
            let m = rng.pick(&MODIFIERS).to_string();
            let at = rng.below(parts.len() + 1);
            parts.insert(at, m);
        }
        _ => {}
    }
    let mut s = String::new();
    for (i, p) in parts.iter().enumerate() {
        if i > 0 {
            s += ws(rng);
        }
        s += p;
    }
    s
}

pub fn hostile_definition(rng: &mut Rng, ops: &[(&'static str, Vec<OpParameter>)]) -> String {
    let nsteps = match rng.below(10) {
        0..=4 => 1,
        5..=7 => 2,
        8 => 3,
        _ => 1 + rng.below(8),
    };
    let mut s = String::new();
    if rng.chance(0.1) {
        s += *rng.pick(&["|", " | ", "<", ">", ":", "\n", "# c\n"]);
    }
    for i in 0..nsteps {
        if i > 0 {
            s += *rng.pick(&["|", " | ", " | ", "\n| ", " < ", " > ", "||", "| |", "><", " |\n: "]);
        }
        if rng.chance(0.08) {
            s += "# a comment | with a bar\n";
        }
        s += &hostile_step(rng, ops);
    }
    if rng.chance(0.1) {
        s += *rng.pick(&["|", " | ", "<", ">", ":", "\n", " # trailing", " inv"]);
    }
    s
}

/// Byte-level mutation of a valid text; the result is made valid UTF-8 again (lossy)
pub fn mutate(rng: &mut Rng, text: &str, others: &[String]) -> String {
    let mut b: Vec<u8> = text.as_bytes().to_vec();
    let n = 1 + rng.below(4);
    for _ in 0..n {
        if b.is_empty() {
            b.push(b'x');
        }
        let at = rng.below(b.len());
        match rng.below(8) {
            0 => b[at] ^= 1 << rng.below(8),
            1 => {
                let ins = *rng.pick(&[
                    b' ', b'|', b'=', b':', b',', b'<', b'>', b'#', b'$', b'(', b')', b'\n', b'\r',
                    0xC3, 0xA9, 0xB0, 0xE2, b'0', b'-', b'.', b'e',
                ]);
                b.insert(at, ins);
            }
            2 => {
                b.remove(at);
            }
            3 => b.truncate(at),
            4 => {
                // splice in a piece of another definition
                if !others.is_empty() {
                    let o = rng.pick(others).as_bytes();
                    if !o.is_empty() {
                        let from = rng.below(o.len());
                        let len = rng.below(o.len() - from) + 1;
                        let piece = o[from..(from + len).min(o.len())].to_vec();
                        for (k, x) in piece.into_iter().enumerate() {
                            b.insert((at + k).min(b.len()), x);
                        }
                    }
                }
            }
            5 => {
                // duplicate a span
                let len = rng.below(b.len() - at) + 1;
                let piece = b[at..at + len].to_vec();
                for (k, x) in piece.into_iter().enumerate() {
                    b.insert(at + k, x);
                }
            }
            6 => b[at] = *rng.pick(&[b' ', b'=', b'|', b':', b',']),
            _ => {
                let m = rng.pick(&MODIFIERS).as_bytes().to_vec();
                b.insert(at, b' ');
                for (k, x) in m.into_iter().enumerate() {
                    b.insert(at + 1 + k, x);
                }
                b.insert(at + 1 + rng.pick(&MODIFIERS).len().min(3), b' ');
            }
        }
    }
    String::from_utf8_lossy(&b).into_owned()
}
