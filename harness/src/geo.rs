//! Independent reference quantities computed from (a, f) only, in plain f64.
//! Nothing in here calls the library under test.

use std::f64::consts::{FRAC_PI_2, PI};

#[derive(Clone, Copy, Debug, PartialEq)]
pub struct Ell {
    pub a: f64,
    pub f: f64,
}

pub const GRS80: Ell = Ell {
    a: 6378137.0,
    f: 1.0 / 298.257_222_100_882_7,
};

/// The published (PROJ ellps table) semi-major axis and reciprocal flattening of the
/// ellipsoids geodesy documents as built in. Transcribed from PROJ's `ellps.cpp`, not
/// from the crate. Entries defined through `b` in PROJ carry the rf derived from a and b
/// to the digits PROJ documents.
/// (name, a, rf, b): the published defining pair is (a, rf) when rf != 0, else (a, b).
pub const PUBLISHED_ELLIPSOIDS: [(&str, f64, f64, f64); 47] = [
    ("MERIT", 6378137.0, 298.257, 0.0),
    ("SGS85", 6378136.0, 298.257, 0.0),
    ("GRS80", 6378137.0, 298.257222101, 0.0),
    ("IAU76", 6378140.0, 298.257, 0.0),
    ("airy", 6377563.396, 299.3249646, 0.0),
    ("APL4.9", 6378137.0, 298.25, 0.0),
    ("NWL9D", 6378145.0, 298.25, 0.0),
    ("mod_airy", 6377340.189, 0.0, 6356034.446),
    ("andrae", 6377104.43, 300.0, 0.0),
    ("danish", 6377019.2563, 300.0, 0.0),
    ("aust_SA", 6378160.0, 298.25, 0.0),
    ("GRS67", 6378160.0, 298.2471674270, 0.0),
    ("GSK2011", 6378136.5, 298.2564151, 0.0),
    ("bessel", 6377397.155, 299.1528128, 0.0),
    ("bess_nam", 6377483.865, 299.1528128, 0.0),
    ("clrk66", 6378206.4, 0.0, 6356583.8),
    ("clrk80", 6378249.145, 293.4663, 0.0),
    ("clrk80ign", 6378249.2, 0.0, 6356515.0),
    ("CPM", 6375738.7, 334.29, 0.0),
    ("delmbr", 6376428.0, 311.5, 0.0),
    ("engelis", 6378136.05, 298.2566, 0.0),
    ("evrst30", 6377276.345, 300.8017, 0.0),
    ("evrst48", 6377304.063, 300.8017, 0.0),
    ("evrst56", 6377301.243, 300.8017, 0.0),
    ("evrst69", 6377295.664, 300.8017, 0.0),
    ("evrstSS", 6377298.556, 300.8017, 0.0),
    ("fschr60", 6378166.0, 298.3, 0.0),
    ("fschr60m", 6378155.0, 298.3, 0.0),
    ("fschr68", 6378150.0, 298.3, 0.0),
    ("helmert", 6378200.0, 298.3, 0.0),
    ("hough", 6378270.0, 297.0, 0.0),
    ("intl", 6378388.0, 297.0, 0.0),
    ("krass", 6378245.0, 298.3, 0.0),
    ("kaula", 6378163.0, 298.24, 0.0),
    ("lerch", 6378139.0, 298.257, 0.0),
    ("mprts", 6397300.0, 191.0, 0.0),
    ("new_intl", 6378157.5, 0.0, 6356772.2),
    ("plessis", 6376523.0, 0.0, 6355863.0),
    ("PZ90", 6378136.0, 298.25784, 0.0),
    ("SEasia", 6378155.0, 0.0, 6356773.3205),
    ("walbeck", 6376896.0, 0.0, 6355834.8467),
    ("WGS60", 6378165.0, 298.3, 0.0),
    ("WGS66", 6378145.0, 298.25, 0.0),
    ("WGS72", 6378135.0, 298.26, 0.0),
    ("WGS84", 6378137.0, 298.257223563, 0.0),
    ("sphere", 6370997.0, 0.0, 6370997.0),
    ("unitsphere", 1.0, 0.0, 1.0),
];

pub fn published(name: &str) -> Option<Ell> {
    PUBLISHED_ELLIPSOIDS
        .iter()
        .find(|e| e.0 == name)
        .map(|e| {
            if e.2 != 0.0 {
                Ell::from_rf(e.1, e.2)
            } else {
                Ell {
                    a: e.1,
                    f: (e.1 - e.3) / e.1,
                }
            }
        })
}

impl Ell {
    pub fn from_rf(a: f64, rf: f64) -> Ell {
        Ell {
            a,
            f: if rf == 0.0 { 0.0 } else { 1.0 / rf },
        }
    }
    pub fn b(&self) -> f64 {
        self.a * (1.0 - self.f)
    }
    pub fn es(&self) -> f64 {
        self.f * (2.0 - self.f)
    }
    pub fn e(&self) -> f64 {
        self.es().sqrt()
    }
    pub fn n(&self) -> f64 {
        self.f / (2.0 - self.f)
    }
    /// meridian radius of curvature
    pub fn m_rad(&self, phi: f64) -> f64 {
        let s = phi.sin();
        let w2 = 1.0 - self.es() * s * s;
        self.a * (1.0 - self.es()) / (w2 * w2.sqrt())
    }
    /// prime vertical radius of curvature
    pub fn n_rad(&self, phi: f64) -> f64 {
        let s = phi.sin();
        self.a / (1.0 - self.es() * s * s).sqrt()
    }

    /// Ground distance in metres between two nearby geographic points (radians)
    pub fn ground(&self, lon1: f64, lat1: f64, lon2: f64, lat2: f64) -> f64 {
        let mut dlon = lon2 - lon1;
        // the same meridian is the same place whatever the winding
        dlon = (dlon + PI).rem_euclid(2.0 * PI) - PI;
        let phi = 0.5 * (lat1 + lat2);
        let dn = (lat2 - lat1) * self.m_rad(phi);
        let de = dlon * self.n_rad(phi) * phi.cos();
        dn.hypot(de)
    }

    /// Meridian arc from the equator to phi by Gauss-Legendre quadrature (absolute accuracy
    /// ~1e-9 m): 16 sub-intervals x 8 points
    pub fn meridian_arc(&self, phi: f64) -> f64 {
        const X: [f64; 4] = [
            0.183_434_642_495_649_8,
            0.525_532_409_916_329,
            0.796_666_477_413_626_7,
            0.960_289_856_497_536_3,
        ];
        const W: [f64; 4] = [
            0.362_683_783_378_362,
            0.313_706_645_877_887_3,
            0.222_381_034_453_374_48,
            0.101_228_536_290_376_26,
        ];
        let nsub = 24;
        let h = phi / nsub as f64;
        let mut sum = 0.0;
        for k in 0..nsub {
            let c = h * (k as f64 + 0.5);
            let mut s = 0.0;
            for j in 0..4 {
                let d = 0.5 * h * X[j];
                s += W[j] * (self.m_rad(c + d) + self.m_rad(c - d));
            }
            sum += 0.5 * h * s;
        }
        sum
    }

    /// Authalic q(phi) = (1-e²)[ sinφ/(1-e² sin²φ) - (1/2e) ln((1-e sinφ)/(1+e sinφ)) ]
    pub fn q_authalic(&self, phi: f64) -> f64 {
        let e = self.e();
        let s = phi.sin();
        if e < 1e-12 {
            return 2.0 * s;
        }
        (1.0 - e * e) * (s / (1.0 - e * e * s * s) + (e * s).atanh() / e)
    }

    pub fn authalic_lat(&self, phi: f64) -> f64 {
        let r = self.q_authalic(phi) / self.q_authalic(FRAC_PI_2);
        r.clamp(-1.0, 1.0).asin()
    }

    /// Isometric latitude psi = asinh(tan φ) - e atanh(e sin φ)
    pub fn isometric_lat(&self, phi: f64) -> f64 {
        let e = self.e();
        phi.tan().asinh() - e * (e * phi.sin()).atanh()
    }

    /// Conformal latitude chi = gd(psi)
    pub fn conformal_lat(&self, phi: f64) -> f64 {
        if phi.abs() >= FRAC_PI_2 {
            return FRAC_PI_2.copysign(phi);
        }
        self.isometric_lat(phi).sinh().atan()
    }

    pub fn geocentric_lat(&self, phi: f64) -> f64 {
        if phi.abs() >= FRAC_PI_2 {
            return phi;
        }
        ((1.0 - self.es()) * phi.tan()).atan()
    }

    pub fn reduced_lat(&self, phi: f64) -> f64 {
        if phi.abs() >= FRAC_PI_2 {
            return phi;
        }
        ((1.0 - self.f) * phi.tan()).atan()
    }

    /// Rectifying latitude mu = (pi/2) m(phi)/m(pi/2)
    pub fn rectifying_lat(&self, phi: f64) -> f64 {
        FRAC_PI_2 * self.meridian_arc(phi) / self.meridian_arc(FRAC_PI_2)
    }

    /// geographic (lon, lat, h) to cartesian
    pub fn to_cart(&self, lon: f64, lat: f64, h: f64) -> [f64; 3] {
        let n = self.n_rad(lat);
        let (sl, cl) = lon.sin_cos();
        let (sp, cp) = lat.sin_cos();
        [
            (n + h) * cp * cl,
            (n + h) * cp * sl,
            (n * (1.0 - self.es()) + h) * sp,
        ]
    }

    /// Point scale factor quantities for projections of ellipsoidal (lon, lat) into a plane:
    /// metres per radian east and north
    pub fn metres_per_rad(&self, lat: f64) -> (f64, f64) {
        (self.n_rad(lat) * lat.cos(), self.m_rad(lat))
    }
}

/// Great circle distance on a sphere of radius r
pub fn great_circle(r: f64, lon1: f64, lat1: f64, lon2: f64, lat2: f64) -> f64 {
    let (s1, c1) = lat1.sin_cos();
    let (s2, c2) = lat2.sin_cos();
    let dl = lon2 - lon1;
    let y = ((c2 * dl.sin()).powi(2) + (c1 * s2 - s1 * c2 * dl.cos()).powi(2)).sqrt();
    let x = s1 * s2 + c1 * c2 * dl.cos();
    r * y.atan2(x)
}

/// Angular distance (radians) between two directions given as lon/lat on the unit sphere
pub fn angular_distance(lon1: f64, lat1: f64, lon2: f64, lat2: f64) -> f64 {
    great_circle(1.0, lon1, lat1, lon2, lat2)
}

/// Move from (lon, lat) by angular distance d in azimuth az on the unit sphere
pub fn sphere_direct(lon: f64, lat: f64, az: f64, d: f64) -> (f64, f64) {
    let (s1, c1) = lat.sin_cos();
    let (sd, cd) = d.sin_cos();
    let lat2 = (s1 * cd + c1 * sd * az.cos()).clamp(-1.0, 1.0).asin();
    let lon2 = lon + (az.sin() * sd * c1).atan2(cd - s1 * lat2.sin());
    (lon2, lat2)
}

pub fn ulp(x: f64) -> f64 {
    let x = x.abs();
    if !x.is_finite() {
        return f64::NAN;
    }
    if x < f64::MIN_POSITIVE {
        return f64::from_bits(1);
    }
    let b = x.to_bits();
    f64::from_bits(b + 1) - x
}
