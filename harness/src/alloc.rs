//! A counting global allocator: current and peak bytes, for the allocation monitor (C15)

use std::alloc::{GlobalAlloc, Layout, System};
use std::sync::atomic::{AtomicUsize, Ordering};

pub struct Counting;

static CURRENT: AtomicUsize = AtomicUsize::new(0);
static PEAK: AtomicUsize = AtomicUsize::new(0);

unsafe impl GlobalAlloc for Counting {
    unsafe fn alloc(&self, layout: Layout) -> *mut u8 {
        let p = System.alloc(layout);
        if !p.is_null() {
            let now = CURRENT.fetch_add(layout.size(), Ordering::Relaxed) + layout.size();
            PEAK.fetch_max(now, Ordering::Relaxed);
        }
        p
    }
    unsafe fn dealloc(&self, ptr: *mut u8, layout: Layout) {
        CURRENT.fetch_sub(layout.size(), Ordering::Relaxed);
        System.dealloc(ptr, layout)
    }
    unsafe fn realloc(&self, ptr: *mut u8, layout: Layout, new_size: usize) -> *mut u8 {
        let p = System.realloc(ptr, layout, new_size);
        if !p.is_null() {
            if new_size >= layout.size() {
                let d = new_size - layout.size();
                let now = CURRENT.fetch_add(d, Ordering::Relaxed) + d;
                PEAK.fetch_max(now, Ordering::Relaxed);
            } else {
                CURRENT.fetch_sub(layout.size() - new_size, Ordering::Relaxed);
            }
        }
        p
    }
}

/// Start a measurement: the peak is reset to the current level, which is returned
pub fn mark() -> usize {
    let c = CURRENT.load(Ordering::Relaxed);
    PEAK.store(c, Ordering::Relaxed);
    c
}

/// Bytes allocated above the mark at the highest point since `mark()`
pub fn peak_since(mark: usize) -> usize {
    PEAK.load(Ordering::Relaxed).saturating_sub(mark)
}
