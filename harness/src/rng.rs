//! Seeded generators (no external crates): SplitMix64 for seeding, xoshiro256** for streams.

#[derive(Clone, Debug)]
pub struct Rng {
    s: [u64; 4],
}

pub fn splitmix(x: &mut u64) -> u64 {
    *x = x.wrapping_add(0x9E37_79B9_7F4A_7C15);
    let mut z = *x;
    z = (z ^ (z >> 30)).wrapping_mul(0xBF58_476D_1CE4_E5B9);
    z = (z ^ (z >> 27)).wrapping_mul(0x94D0_49BB_1331_11EB);
    z ^ (z >> 31)
}

pub fn fnv(s: &str) -> u64 {
    let mut h = 0xcbf2_9ce4_8422_2325u64;
    for b in s.as_bytes() {
        h ^= *b as u64;
        h = h.wrapping_mul(0x0000_0100_0000_01B3);
    }
    h
}

pub fn mix(a: u64, b: u64) -> u64 {
    let mut x = a ^ b.rotate_left(32) ^ 0x5851_F42D_4C95_7F2D;
    splitmix(&mut x)
}

impl Rng {
    pub fn new(seed: u64) -> Rng {
        let mut x = seed;
        let s = [
            splitmix(&mut x),
            splitmix(&mut x),
            splitmix(&mut x),
            splitmix(&mut x),
        ];
        Rng { s }
    }

    /// An independent stream for (seed, property, shard, case)
    pub fn for_case(seed: u64, prop: &str, shard: u64, idx: u64) -> Rng {
        Rng::new(mix(mix(mix(seed, fnv(prop)), shard), idx))
    }

    pub fn u64(&mut self) -> u64 {
        let r = self.s[1].wrapping_mul(5).rotate_left(7).wrapping_mul(9);
        let t = self.s[1] << 17;
        self.s[2] ^= self.s[0];
        self.s[3] ^= self.s[1];
        self.s[1] ^= self.s[2];
        self.s[0] ^= self.s[3];
        self.s[2] ^= t;
        self.s[3] = self.s[3].rotate_left(45);
        r
    }

    /// Uniform in [0, n)
    pub fn below(&mut self, n: usize) -> usize {
        if n == 0 {
            return 0;
        }
        (self.u64() % n as u64) as usize
    }

    /// Uniform integer in [lo, hi] (inclusive)
    pub fn int(&mut self, lo: i64, hi: i64) -> i64 {
        lo + (self.u64() % ((hi - lo + 1) as u64)) as i64
    }

    /// Uniform in [0, 1)
    pub fn f(&mut self) -> f64 {
        (self.u64() >> 11) as f64 / (1u64 << 53) as f64
    }

    pub fn range(&mut self, lo: f64, hi: f64) -> f64 {
        lo + (hi - lo) * self.f()
    }

    pub fn chance(&mut self, p: f64) -> bool {
        self.f() < p
    }

    pub fn pick<'a, T>(&mut self, xs: &'a [T]) -> &'a T {
        &xs[self.below(xs.len())]
    }

    pub fn shuffle<T>(&mut self, xs: &mut [T]) {
        for i in (1..xs.len()).rev() {
            let j = self.below(i + 1);
            xs.swap(i, j);
        }
    }

    /// Log-uniform magnitude in [lo, hi], random sign
    pub fn logmag(&mut self, lo: f64, hi: f64) -> f64 {
        let v = (self.range(lo.ln(), hi.ln())).exp();
        if self.chance(0.5) {
            -v
        } else {
            v
        }
    }

    /// A decimal number with a short textual form (so that text round trips are exact)
    pub fn short_decimal(&mut self, lo: f64, hi: f64, decimals: u32) -> f64 {
        let scale = 10f64.powi(decimals as i32);
        let v = (self.range(lo, hi) * scale).round() / scale;
        // re-parse the printed form so that the value is exactly what the text says
        format!("{v}").parse::<f64>().unwrap()
    }

    /// An arbitrary f64 bit pattern, biased towards special values
    pub fn hostile_f64(&mut self) -> f64 {
        match self.below(20) {
            0 => f64::NAN,
            1 => f64::INFINITY,
            2 => f64::NEG_INFINITY,
            3 => 0.0,
            4 => -0.0,
            5 => f64::MIN_POSITIVE / 4.0,
            6 => -f64::MIN_POSITIVE / 4.0,
            7 => 1e300,
            8 => -1e300,
            9 => f64::MAX,
            10 => std::f64::consts::FRAC_PI_2,
            11 => -std::f64::consts::FRAC_PI_2,
            12 => std::f64::consts::PI,
            13 => -std::f64::consts::PI,
            14 => f64::from_bits(self.u64()),
            15 => self.logmag(1e-12, 1e12),
            16 => self.range(-4.0, 4.0),
            17 => self.range(-1e7, 1e7),
            18 => 90.0 * self.int(-4, 4) as f64,
            _ => self.range(-400.0, 400.0),
        }
    }
}
