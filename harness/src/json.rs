//! A minimal JSON value and writer (the supervisor, in Python, does all the reading).

#[derive(Clone, Debug)]
pub enum J {
    Null,
    Bool(bool),
    Int(i64),
    Num(f64),
    Str(String),
    Arr(Vec<J>),
    Obj(Vec<(String, J)>),
}

impl J {
    pub fn obj() -> J {
        J::Obj(Vec::new())
    }
    pub fn s<T: AsRef<str>>(s: T) -> J {
        J::Str(s.as_ref().to_string())
    }
    pub fn set<T: Into<J>>(mut self, k: &str, v: T) -> J {
        if let J::Obj(ref mut o) = self {
            o.push((k.to_string(), v.into()));
        }
        self
    }
    pub fn coords(c: &[f64]) -> J {
        J::Arr(c.iter().map(|x| J::Num(*x)).collect())
    }
    /// Coordinates as hex bit patterns plus readable values
    pub fn bits(c: &[f64]) -> J {
        J::Arr(
            c.iter()
                .map(|x| J::Str(format!("{:016x}={:?}", x.to_bits(), x)))
                .collect(),
        )
    }
}

impl From<&str> for J {
    fn from(s: &str) -> J {
        J::Str(s.to_string())
    }
}
impl From<String> for J {
    fn from(s: String) -> J {
        J::Str(s)
    }
}
impl From<&String> for J {
    fn from(s: &String) -> J {
        J::Str(s.clone())
    }
}
impl From<f64> for J {
    fn from(v: f64) -> J {
        J::Num(v)
    }
}
impl From<i64> for J {
    fn from(v: i64) -> J {
        J::Int(v)
    }
}
impl From<u64> for J {
    fn from(v: u64) -> J {
        J::Int(v as i64)
    }
}
impl From<usize> for J {
    fn from(v: usize) -> J {
        J::Int(v as i64)
    }
}
impl From<i32> for J {
    fn from(v: i32) -> J {
        J::Int(v as i64)
    }
}
impl From<bool> for J {
    fn from(v: bool) -> J {
        J::Bool(v)
    }
}
impl From<Vec<J>> for J {
    fn from(v: Vec<J>) -> J {
        J::Arr(v)
    }
}
impl From<Vec<String>> for J {
    fn from(v: Vec<String>) -> J {
        J::Arr(v.into_iter().map(J::Str).collect())
    }
}

pub fn escape(s: &str, out: &mut String) {
    out.push('"');
    for c in s.chars() {
        match c {
            '"' => out.push_str("\\\""),
            '\\' => out.push_str("\\\\"),
            '\n' => out.push_str("\\n"),
            '\r' => out.push_str("\\r"),
            '\t' => out.push_str("\\t"),
            c if (c as u32) < 0x20 => out.push_str(&format!("\\u{:04x}", c as u32)),
            c => out.push(c),
        }
    }
    out.push('"');
}

impl J {
    pub fn write(&self, out: &mut String) {
        match self {
            J::Null => out.push_str("null"),
            J::Bool(b) => out.push_str(if *b { "true" } else { "false" }),
            J::Int(i) => out.push_str(&i.to_string()),
            J::Num(v) => {
                if v.is_finite() {
                    out.push_str(&format!("{v:e}"));
                } else {
                    // JSON has no NaN/inf: keep them readable as strings
                    escape(&format!("{v}"), out);
                }
            }
            J::Str(s) => escape(s, out),
            J::Arr(a) => {
                out.push('[');
                for (i, x) in a.iter().enumerate() {
                    if i > 0 {
                        out.push(',');
                    }
                    x.write(out);
                }
                out.push(']');
            }
            J::Obj(o) => {
                out.push('{');
                for (i, (k, v)) in o.iter().enumerate() {
                    if i > 0 {
                        out.push(',');
                    }
                    escape(k, out);
                    out.push(':');
                    v.write(out);
                }
                out.push('}');
            }
        }
    }
    pub fn dump(&self) -> String {
        let mut s = String::new();
        self.write(&mut s);
        s
    }
}
