//! gverif: one worker process = one shard of one property's workload.
//!
//! usage: gverif <PROP> --tier quick|thorough --seed N --shard I --nshards N --out DIR
//!               [--start K] [--only K] [--hang-budget S] [--stack-mb M] [--scale F] [--kp PATH]
//!
//! exit status: 0 = shard completed (violations, if any, are in the WAL and summary),
//!              3 = hang candidate (summary has next_start), anything else = worker died.

mod alloc;
mod catalog;
mod geo;
mod gridgen;
mod harness;
mod json;
mod props;
mod rng;
mod textgen;
mod util;

use harness::{Cfg, Tier, H};

#[global_allocator]
static GLOBAL: alloc::Counting = alloc::Counting;
use std::sync::atomic::Ordering;

fn main() {
    let args: Vec<String> = std::env::args().collect();
    if args.len() < 2 {
        eprintln!("usage: gverif <PROP> [options]");
        std::process::exit(64);
    }
    let mut cfg = Cfg {
        prop: args[1].clone(),
        tier: Tier::Quick,
        seed: 1,
        shard: 0,
        nshards: 1,
        start: 0,
        only: None,
        out: std::path::PathBuf::from("."),
        hang_budget_s: 10.0,
        stack_mb: 8,
        profile: "verif".to_string(),
        scale: 1.0,
        kp: None,
    };
    let mut i = 2;
    while i < args.len() {
        let v = args.get(i + 1).cloned().unwrap_or_default();
        match args[i].as_str() {
            "--tier" => cfg.tier = if v == "thorough" { Tier::Thorough } else { Tier::Quick },
            "--seed" => cfg.seed = v.parse().expect("seed"),
            "--shard" => cfg.shard = v.parse().expect("shard"),
            "--nshards" => cfg.nshards = v.parse().expect("nshards"),
            "--start" => cfg.start = v.parse().expect("start"),
            "--only" => cfg.only = Some(v.parse().expect("only")),
            "--out" => cfg.out = std::path::PathBuf::from(v),
            "--hang-budget" => cfg.hang_budget_s = v.parse().expect("hang-budget"),
            "--stack-mb" => cfg.stack_mb = v.parse().expect("stack-mb"),
            "--profile" => cfg.profile = v,
            "--scale" => cfg.scale = v.parse().expect("scale"),
            "--kp" => cfg.kp = Some(std::path::PathBuf::from(v)),
            other => {
                eprintln!("unknown option {other}");
                std::process::exit(64);
            }
        }
        i += 2;
    }
    if !props::known(&cfg.prop) {
        eprintln!("unknown property {}", cfg.prop);
        std::process::exit(64);
    }

    harness::install_panic_hook();
    let h = H::new(cfg.clone());
    let sh = h.sh.clone();
    let sh2 = h.sh.clone();
    let runner = std::thread::Builder::new()
        .name("gv-runner".to_string())
        .stack_size(cfg.stack_mb * 1024 * 1024)
        .spawn(move || {
            let r = std::panic::catch_unwind(std::panic::AssertUnwindSafe(|| props::run(&h)));
            if r.is_err() {
                h.violation(
                    u64::MAX,
                    "HARNESS-PANIC/outside-guard",
                    json::J::s("the workload panicked outside a guarded case"),
                );
            }
            sh2.done.store(true, Ordering::SeqCst);
        })
        .expect("cannot spawn runner");
    harness::monitor(&cfg, &sh);
    let _ = runner.join();
    harness::write_summary(&cfg, &sh, "done", None);
}
