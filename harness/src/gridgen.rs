//! Grid generators, encoders (Gravsoft text, NTv2 binary) and the reference lookup model.
//! The encoders write what the formats' documentation says; the model is bilinear interpolation
//! on the values a correct decoder must arrive at.  Nothing here calls the library's decoders.

use crate::rng::Rng;
use geodesy::authoring::*;
use std::collections::BTreeMap;
use std::sync::Arc;

pub const D2R: f64 = std::f64::consts::PI / 180.0;

/// A regular grid in geographic degrees (or projected metres), rows from north to south,
/// columns from west to east, `bands` values per node in *file* order and *file* units
#[derive(Clone, Debug)]
pub struct GridSpec {
    pub lat_n: f64,
    pub lat_s: f64,
    pub lon_w: f64,
    pub lon_e: f64,
    pub dlat: f64,
    pub dlon: f64,
    pub rows: usize,
    pub cols: usize,
    pub bands: usize,
    pub projected: bool,
    /// file values, row-major from the north-west corner, band-interleaved
    pub values: Vec<f32>,
}

impl GridSpec {
    /// A random grid whose node values are an asymmetric ramp plus noise, different in every
    /// axis and band, so that swapped weights, rows/columns or bands show
    pub fn random(rng: &mut Rng, bands: usize, projected: bool) -> GridSpec {
        let big = rng.chance(0.1);
        let rows = 2 + rng.below(if big { 39 } else { 8 });
        let cols = 2 + rng.below(if big { 39 } else { 8 });
        let (dlat, dlon, lat_s, lon_w) = if projected {
            let d = *rng.pick(&[1000.0, 2500.0, 10000.0]);
            // northings and eastings of either sign (a grid entirely west and south of the
            // false origin has nothing but negative bounds)
            let (sn, se) = (if rng.chance(0.3) { -1.0 } else { 1.0 }, if rng.chance(0.3) { -1.0 } else { 1.0 });
            (d, d * *rng.pick(&[1.0, 2.0]), sn * rng.int(5000, 6000) as f64 * 1000.0, se * rng.int(300, 700) as f64 * 1000.0)
        } else {
            // increments with and without an exact binary representation
            let d = *rng.pick(&[0.25, 0.5, 1.0, 0.125, 0.1, 0.05, 0.2, 0.3]);
            (d, d * *rng.pick(&[1.0, 2.0, 0.5]), rng.int(-70, 60) as f64, rng.int(-170, 140) as f64)
        };
        let lat_n = lat_s + dlat * (rows - 1) as f64;
        let lon_e = lon_w + dlon * (cols - 1) as f64;
        let mut values = Vec::with_capacity(rows * cols * bands);
        let base: Vec<f64> = (0..bands).map(|b| rng.range(-20.0, 20.0) + 40.0 * b as f64).collect();
        let gr: Vec<f64> = (0..bands).map(|_| rng.range(0.5, 3.0)).collect();
        let gc: Vec<f64> = (0..bands).map(|_| -rng.range(3.5, 7.0)).collect();
        for r in 0..rows {
            for c in 0..cols {
                for b in 0..bands {
                    let v = base[b] + gr[b] * r as f64 + gc[b] * c as f64 + rng.range(-0.3, 0.3);
                    // values with a short decimal form, so that the text round trip is exact
                    let v = (v * 1000.0).round() / 1000.0;
                    values.push(v as f32);
                }
            }
        }
        GridSpec {
            lat_n,
            lat_s,
            lon_w,
            lon_e,
            dlat,
            dlon,
            rows,
            cols,
            bands,
            projected,
            values,
        }
    }

    pub fn file_value(&self, row: usize, col: usize, band: usize) -> f32 {
        self.values[(row * self.cols + col) * self.bands + band]
    }

    /// Gravsoft text: header "lat_s lat_n lon_w lon_e dlat dlon", then the rows from the north
    pub fn gravsoft(&self, rng: &mut Rng) -> String {
        let mut s = String::new();
        if rng.chance(0.5) {
            s += *rng.pick(&["# generated grid\n", "## generated grid ##\n", "#----------#\n# a # b # 1 2 3\n"]);
        }
        let n = |x: f64| format!("{x}");
        let sep = |rng: &mut Rng| *rng.pick(&[" ", "  ", "\t", "   "]);
        s += &format!(
            "{}{}{}{}{}{}{}{}{}{}{}",
            n(self.lat_s),
            sep(rng),
            n(self.lat_n),
            sep(rng),
            n(self.lon_w),
            sep(rng),
            n(self.lon_e),
            sep(rng),
            n(self.dlat),
            sep(rng),
            n(self.dlon)
        );
        s += *rng.pick(&["\n", "\n\n", "  # header\n", "\r\n"]);
        let per_line = *rng.pick(&[0usize, 1, 3, 7]);
        let mut k = 0;
        for r in 0..self.rows {
            for c in 0..self.cols {
                for b in 0..self.bands {
                    s += &format!("{}", self.file_value(r, c, b));
                    k += 1;
                    if per_line > 0 && k % per_line == 0 {
                        s += *rng.pick(&["\n", " \n", "\n\n", " # c\n", " # row # checked 7\n"]);
                    } else {
                        s += sep(rng);
                    }
                }
            }
            if per_line == 0 {
                s += "\n";
            }
        }
        if rng.chance(0.3) {
            s += "\n# trailing comment\n";
        }
        s
    }

    /// What a correct decoder arrives at: geometry in radians (angular) or metres (projected),
    /// bands in internal order and units
    pub fn model(&self) -> Model {
        let k = if self.projected { 1.0 } else { D2R };
        let mut bands = self.bands;
        let mut values: Vec<f32> = Vec::with_capacity(self.values.len());
        for node in self.values.chunks(self.bands) {
            match (self.bands, self.projected) {
                (2, false) => {
                    // seconds of arc in latitude/longitude order -> radians, longitude first
                    values.push((node[1] / 3600.0).to_radians());
                    values.push((node[0] / 3600.0).to_radians());
                }
                (3, false) => {
                    // mm/year in north/east/up order -> m/year, east first
                    values.push(node[1] / 1000.0);
                    values.push(node[0] / 1000.0);
                    values.push(node[2] / 1000.0);
                }
                _ => values.extend_from_slice(node),
            }
        }
        if bands > 3 {
            bands = 3;
        }
        Model {
            lat_n: self.lat_n * k,
            lat_s: self.lat_s * k,
            lon_w: self.lon_w * k,
            lon_e: self.lon_e * k,
            dlat: self.dlat * k,
            dlon: self.dlon * k,
            rows: self.rows,
            cols: self.cols,
            bands,
            values,
        }
    }
}

/// The decoded grid a lookup works on
#[derive(Clone, Debug)]
pub struct Model {
    pub lat_n: f64,
    pub lat_s: f64,
    pub lon_w: f64,
    pub lon_e: f64,
    pub dlat: f64,
    pub dlon: f64,
    pub rows: usize,
    pub cols: usize,
    pub bands: usize,
    pub values: Vec<f32>,
}

impl Model {
    pub fn node(&self, row: usize, col: usize, band: usize) -> f64 {
        self.values[(row * self.cols + col) * self.bands + band] as f64
    }

    pub fn node_pos(&self, row: usize, col: usize) -> (f64, f64) {
        (self.lon_w + col as f64 * self.dlon, self.lat_n - row as f64 * self.dlat)
    }

    pub fn contains(&self, lon: f64, lat: f64, margin: f64) -> bool {
        lat >= self.lat_s - margin * self.dlat
            && lat <= self.lat_n + margin * self.dlat
            && lon >= self.lon_w - margin * self.dlon
            && lon <= self.lon_e + margin * self.dlon
    }

    /// The cell used for (lon, lat): (row of the southern nodes, column of the western nodes);
    /// outside the grid, the nearest cell
    pub fn cell(&self, lon: f64, lat: f64) -> (usize, usize) {
        let fc = ((lon - self.lon_w) / self.dlon).floor();
        let fr = ((self.lat_n - lat) / self.dlat).ceil();
        let col = fc.clamp(0.0, (self.cols - 2) as f64) as usize;
        let row = fr.clamp(1.0, (self.rows - 1) as f64) as usize;
        (row, col)
    }

    /// Bilinear interpolation (linear continuation outside the outermost cells)
    pub fn at(&self, lon: f64, lat: f64, margin: f64) -> Option<[f64; 4]> {
        if !self.contains(lon, lat, margin) {
            return None;
        }
        let (row, col) = self.cell(lon, lat);
        let (x0, y0) = self.node_pos(row, col);
        let fx = (lon - x0) / self.dlon;
        let fy = (lat - y0) / self.dlat;
        let mut out = [0.0; 4];
        for b in 0..self.bands.min(4) {
            let sw = self.node(row, col, b);
            let se = self.node(row, col + 1, b);
            let nw = self.node(row - 1, col, b);
            let ne = self.node(row - 1, col + 1, b);
            let w = sw + fy * (nw - sw);
            let e = se + fy * (ne - se);
            out[b] = w + fx * (e - w);
        }
        Some(out)
    }

    pub fn corners(&self, lon: f64, lat: f64, band: usize) -> [f64; 4] {
        let (row, col) = self.cell(lon, lat);
        [
            self.node(row, col, band),
            self.node(row, col + 1, band),
            self.node(row - 1, col, band),
            self.node(row - 1, col + 1, band),
        ]
    }
}

// ---------------------------------------------------------------------------------------
// NTv2
// ---------------------------------------------------------------------------------------

/// One NTv2 sub grid in file conventions: seconds of arc, longitudes positive west
#[derive(Clone, Debug)]
pub struct SubGrid {
    pub name: String,
    pub parent: String,
    /// degrees, east positive (converted on writing)
    pub lat_s: f64,
    pub lat_n: f64,
    pub lon_w: f64,
    pub lon_e: f64,
    pub dlat: f64,
    pub dlon: f64,
    pub rows: usize,
    pub cols: usize,
    /// (lat shift, lon shift east positive) in seconds of arc, row-major from the NW corner
    pub shifts: Vec<(f32, f32)>,
}

impl SubGrid {
    pub fn random(rng: &mut Rng, name: &str, parent: &str, lat_s: f64, lon_w: f64, d: f64, rows: usize, cols: usize) -> SubGrid {
        let mut shifts = Vec::with_capacity(rows * cols);
        let (a0, a1, a2) = (rng.range(-5.0, 5.0), rng.range(0.1, 0.4), -rng.range(0.5, 0.9));
        let (b0, b1, b2) = (rng.range(-5.0, 5.0), -rng.range(0.2, 0.5), rng.range(0.6, 1.1));
        for r in 0..rows {
            for c in 0..cols {
                let la = a0 + a1 * r as f64 + a2 * c as f64 + rng.range(-0.05, 0.05);
                let lo = b0 + b1 * r as f64 + b2 * c as f64 + rng.range(-0.05, 0.05);
                shifts.push((la as f32, lo as f32));
            }
        }
        SubGrid {
            name: name.into(),
            parent: parent.into(),
            lat_s,
            lat_n: lat_s + d * (rows - 1) as f64,
            lon_w,
            lon_e: lon_w + d * (cols - 1) as f64,
            dlat: d,
            dlon: d,
            rows,
            cols,
            shifts,
        }
    }

    pub fn model(&self) -> Model {
        let mut values = Vec::with_capacity(self.shifts.len() * 2);
        for (la, lo) in &self.shifts {
            // internal order: longitude shift, latitude shift, radians, stored as f32
            values.push(((*lo as f64 / 3600.0).to_radians()) as f32);
            values.push(((*la as f64 / 3600.0).to_radians()) as f32);
        }
        Model {
            lat_n: (self.lat_n * 3600.0).to_radians() / 3600.0,
            lat_s: (self.lat_s * 3600.0).to_radians() / 3600.0,
            lon_w: -(-self.lon_w * 3600.0).to_radians() / 3600.0,
            lon_e: -(-self.lon_e * 3600.0).to_radians() / 3600.0,
            dlat: (self.dlat * 3600.0).to_radians() / 3600.0,
            dlon: (self.dlon * 3600.0).to_radians() / 3600.0,
            rows: self.rows,
            cols: self.cols,
            bands: 2,
            values,
        }
    }
}

fn rec_str(out: &mut Vec<u8>, key: &str, val: &str) {
    let mut k = key.as_bytes().to_vec();
    k.resize(8, b' ');
    out.extend_from_slice(&k);
    let mut v = val.as_bytes().to_vec();
    v.resize(8, b' ');
    out.extend_from_slice(&v);
}

fn rec_i32(out: &mut Vec<u8>, key: &str, val: i32, be: bool) {
    let mut k = key.as_bytes().to_vec();
    k.resize(8, b' ');
    out.extend_from_slice(&k);
    out.extend_from_slice(&if be { val.to_be_bytes() } else { val.to_le_bytes() });
    out.extend_from_slice(&[0u8; 4]);
}

fn rec_f64(out: &mut Vec<u8>, key: &str, val: f64, be: bool) {
    let mut k = key.as_bytes().to_vec();
    k.resize(8, b' ');
    out.extend_from_slice(&k);
    out.extend_from_slice(&if be { val.to_be_bytes() } else { val.to_le_bytes() });
}

/// Encode an NTv2 file: overview header (11 records), then per sub grid a header (11 records)
/// followed by its nodes, stored from the south-east corner westwards, rows northwards
pub fn ntv2(subs: &[SubGrid], be: bool) -> Vec<u8> {
    let mut out = Vec::new();
    rec_i32(&mut out, "NUM_OREC", 11, be);
    rec_i32(&mut out, "NUM_SREC", 11, be);
    rec_i32(&mut out, "NUM_FILE", subs.len() as i32, be);
    rec_str(&mut out, "GS_TYPE", "SECONDS");
    rec_str(&mut out, "VERSION", "NTv2.0");
    rec_str(&mut out, "SYSTEM_F", "INTER");
    rec_str(&mut out, "SYSTEM_T", "GRS80");
    rec_f64(&mut out, "MAJOR_F", 6378388.0, be);
    rec_f64(&mut out, "MINOR_F", 6356911.946127946, be);
    rec_f64(&mut out, "MAJOR_T", 6378137.0, be);
    rec_f64(&mut out, "MINOR_T", 6356752.314140356, be);
    for s in subs {
        rec_str(&mut out, "SUB_NAME", &s.name);
        rec_str(&mut out, "PARENT", &s.parent);
        rec_str(&mut out, "CREATED", "20240101");
        rec_str(&mut out, "UPDATED", "20240101");
        rec_f64(&mut out, "S_LAT", s.lat_s * 3600.0, be);
        rec_f64(&mut out, "N_LAT", s.lat_n * 3600.0, be);
        rec_f64(&mut out, "E_LONG", -s.lon_e * 3600.0, be);
        rec_f64(&mut out, "W_LONG", -s.lon_w * 3600.0, be);
        rec_f64(&mut out, "LAT_INC", s.dlat * 3600.0, be);
        rec_f64(&mut out, "LONG_INC", s.dlon * 3600.0, be);
        rec_i32(&mut out, "GS_COUNT", (s.rows * s.cols) as i32, be);
        for r in (0..s.rows).rev() {
            for c in (0..s.cols).rev() {
                let (la, lo) = s.shifts[r * s.cols + c];
                let west_positive = -lo;
                for v in [la, west_positive, 0.05f32, 0.05f32] {
                    out.extend_from_slice(&if be { v.to_be_bytes() } else { v.to_le_bytes() });
                }
            }
        }
    }
    rec_str(&mut out, "END", "");
    out
}

// ---------------------------------------------------------------------------------------
// A context that serves in-memory grids, so that grid operators run through the real factory
// ---------------------------------------------------------------------------------------

#[derive(Debug, Default)]
pub struct GridCtx {
    constructors: BTreeMap<String, OpConstructor>,
    resources: BTreeMap<String, String>,
    operators: BTreeMap<OpHandle, Op>,
    pub grids: BTreeMap<String, Arc<dyn Grid>>,
}

const BAD_ID: Error = Error::General("GridCtx: Unknown operator id");

impl Context for GridCtx {
    fn new() -> GridCtx {
        GridCtx::default()
    }
    fn op(&mut self, definition: &str) -> Result<OpHandle, Error> {
        let op = Op::new(definition, self)?;
        let id = op.id;
        self.operators.insert(id, op);
        Ok(id)
    }
    fn apply(&self, op: OpHandle, direction: Direction, operands: &mut dyn CoordinateSet) -> Result<usize, Error> {
        let op = self.operators.get(&op).ok_or(BAD_ID)?;
        Ok(op.apply(self, operands, direction))
    }
    fn steps(&self, op: OpHandle) -> Result<&Vec<String>, Error> {
        let op = self.operators.get(&op).ok_or(BAD_ID)?;
        Ok(&op.descriptor.steps)
    }
    fn params(&self, op: OpHandle, index: usize) -> Result<ParsedParameters, Error> {
        let op = self.operators.get(&op).ok_or(BAD_ID)?;
        if op.steps.is_empty() {
            if index > 0 {
                return Err(Error::General("GridCtx: Bad step index"));
            }
            return Ok(op.params.clone());
        }
        if index >= op.steps.len() {
            return Err(Error::General("GridCtx: Bad step index"));
        }
        Ok(op.steps[index].params.clone())
    }
    fn globals(&self) -> BTreeMap<String, String> {
        BTreeMap::from([("ellps".to_string(), "GRS80".to_string())])
    }
    fn register_op(&mut self, name: &str, constructor: OpConstructor) {
        self.constructors.insert(String::from(name), constructor);
    }
    fn get_op(&self, name: &str) -> Result<OpConstructor, Error> {
        if let Some(result) = self.constructors.get(name) {
            return Ok(OpConstructor(result.0));
        }
        Err(Error::NotFound(name.to_string(), ": User defined constructor".to_string()))
    }
    fn register_resource(&mut self, name: &str, definition: &str) {
        self.resources.insert(String::from(name), String::from(definition));
    }
    fn get_resource(&self, name: &str) -> Result<String, Error> {
        if let Some(result) = self.resources.get(name) {
            return Ok(result.to_string());
        }
        Err(Error::NotFound(name.to_string(), ": User defined resource".to_string()))
    }
    fn get_blob(&self, name: &str) -> Result<Vec<u8>, Error> {
        Err(Error::NotFound(name.to_string(), ": Blob".to_string()))
    }
    fn get_grid(&self, name: &str) -> Result<Arc<dyn Grid>, Error> {
        self.grids.get(name).cloned().ok_or(Error::NotFound(name.to_string(), ": Grid".to_string()))
    }
}
