//! Worker-side machinery: configuration, write-ahead event log, guarded execution
//! (catch_unwind), the report that becomes evidence, and the CPU-time hang monitor.

use crate::json::J;
use crate::rng::Rng;
use std::collections::{BTreeMap, HashSet};
use std::fs::File;
use std::io::Write;
use std::panic::{catch_unwind, AssertUnwindSafe};
use std::path::PathBuf;
use std::sync::atomic::{AtomicBool, AtomicU64, Ordering};
use std::sync::{Arc, Mutex};

#[derive(Clone, Copy, Debug, PartialEq, Eq)]
pub enum Tier {
    Quick,
    Thorough,
}

#[derive(Clone, Debug)]
pub struct Cfg {
    pub prop: String,
    pub tier: Tier,
    pub seed: u64,
    pub shard: u64,
    pub nshards: u64,
    pub start: u64,
    pub only: Option<u64>,
    pub out: PathBuf,
    pub hang_budget_s: f64,
    pub stack_mb: usize,
    pub profile: String,
    pub scale: f64,
    pub kp: Option<PathBuf>,
}

const DISTINCT_CAP: usize = 4_000_000;
const SAMPLE_CAP: usize = 6;
const WITNESS_PER_SIG: u64 = 3;

#[derive(Default)]
pub struct Report {
    pub evaluations: u64,
    pub distinct: HashSet<u64>,
    pub distinct_overflow: u64,
    pub classes: BTreeMap<String, u64>,
    pub maxima: BTreeMap<String, (f64, String)>,
    pub samples: Vec<J>,
    pub violations: Vec<J>,
    pub sig_counts: BTreeMap<String, u64>,
    pub notes: Vec<String>,
    pub uncovered: Vec<String>,
    pub cases: u64,
    pub panics_caught: u64,
    pub extra: Vec<(String, J)>,
}

pub struct Shared {
    pub seq: AtomicU64,
    pub cur_idx: AtomicU64,
    pub in_case: AtomicBool,
    pub done: AtomicBool,
    pub report: Mutex<Report>,
    pub wal: Mutex<File>,
    pub cur_desc: Mutex<String>,
}

pub struct H {
    pub cfg: Cfg,
    pub sh: Arc<Shared>,
}

thread_local! {
    static LAST_PANIC: std::cell::RefCell<Option<(String, String)>> = const { std::cell::RefCell::new(None) };
}

pub fn install_panic_hook() {
    std::panic::set_hook(Box::new(|info| {
        let msg = if let Some(s) = info.payload().downcast_ref::<&str>() {
            s.to_string()
        } else if let Some(s) = info.payload().downcast_ref::<String>() {
            s.clone()
        } else {
            "non-string panic payload".to_string()
        };
        let loc = info
            .location()
            .map(|l| format!("{}:{}", l.file(), l.line()))
            .unwrap_or_default();
        LAST_PANIC.with(|p| *p.borrow_mut() = Some((msg, loc)));
    }));
}

fn take_panic() -> (String, String) {
    LAST_PANIC
        .with(|p| p.borrow_mut().take())
        .unwrap_or_default()
}

/// File name (without line number) of a panic location, for stable signatures
fn loc_file(loc: &str) -> String {
    let f = loc.rsplit_once(':').map(|x| x.0).unwrap_or(loc);
    let f = f.strip_prefix("/repo/").unwrap_or(f);
    f.to_string()
}

fn short(msg: &str) -> String {
    // digits are replaced and the text is cut at the first quote or parenthesis, so that a
    // message carrying data values gives one signature
    let cut = msg.find(['"', '(', '\'', '[']).unwrap_or(msg.len());
    let mut s: String = msg[..cut]
        .chars()
        .take(60)
        .map(|c| if c.is_ascii_digit() { '#' } else { c })
        .map(|c| if c.is_whitespace() { '_' } else { c })
        .collect();
    while s.contains("##") {
        s = s.replace("##", "#");
    }
    s
}

impl H {
    pub fn new(cfg: Cfg) -> H {
        std::fs::create_dir_all(&cfg.out).ok();
        let walpath = cfg.out.join(format!("wal_{}_{}.log", cfg.shard, cfg.start));
        let wal = File::create(walpath).expect("cannot create WAL");
        let sh = Arc::new(Shared {
            seq: AtomicU64::new(0),
            cur_idx: AtomicU64::new(0),
            in_case: AtomicBool::new(false),
            done: AtomicBool::new(false),
            report: Mutex::new(Report::default()),
            wal: Mutex::new(wal),
            cur_desc: Mutex::new(String::new()),
        });
        H { cfg, sh }
    }

    pub fn quick(&self) -> bool {
        self.cfg.tier == Tier::Quick
    }

    /// Number of cases for this shard: `q` in the quick tier, `t` in the thorough tier
    /// (totals over all shards), scaled by --scale
    pub fn budget(&self, q: u64, t: u64) -> u64 {
        let total = if self.quick() { q } else { t };
        let total = (total as f64 * self.cfg.scale).ceil() as u64;
        (total / self.cfg.nshards).max(1)
    }

    /// The case indices this worker must run, out of `n` for this shard
    pub fn cases(&self, n: u64) -> Vec<u64> {
        if let Some(i) = self.cfg.only {
            return vec![i];
        }
        (self.cfg.start..n).collect()
    }

    /// Partition an exhaustive enumeration of `n` items over the shards
    pub fn my_share(&self, n: u64) -> Vec<u64> {
        if let Some(i) = self.cfg.only {
            return vec![i];
        }
        (0..n)
            .filter(|i| i % self.cfg.nshards == self.cfg.shard && *i >= self.cfg.start)
            .collect()
    }

    pub fn rng(&self, idx: u64) -> Rng {
        Rng::for_case(self.cfg.seed, &self.cfg.prop, self.cfg.shard, idx)
    }

    /// A stream that is the same in all shards (for shared set-up such as scratch files)
    pub fn common_rng(&self, tag: &str) -> Rng {
        Rng::for_case(self.cfg.seed, tag, 0, 0)
    }

    fn wal(&self, line: &str) {
        let mut w = self.sh.wal.lock().unwrap();
        let _ = w.write_all(line.as_bytes());
        let _ = w.write_all(b"\n");
        let _ = w.flush();
    }

    /// Run one case under the crash monitor: BEGIN is logged before, END after;
    /// a panic is caught and recorded as a violation with the panic site in its signature.
    pub fn guard<R>(&self, idx: u64, desc: &str, f: impl FnOnce() -> R) -> Option<R> {
        let mut line = format!("B\t{idx}\t");
        crate::json::escape(desc, &mut line);
        self.wal(&line);
        *self.sh.cur_desc.lock().unwrap() = desc.to_string();
        self.sh.cur_idx.store(idx, Ordering::SeqCst);
        self.sh.in_case.store(true, Ordering::SeqCst);
        self.sh.seq.fetch_add(1, Ordering::SeqCst);
        let r = catch_unwind(AssertUnwindSafe(f));
        self.sh.in_case.store(false, Ordering::SeqCst);
        self.sh.seq.fetch_add(1, Ordering::SeqCst);
        self.wal(&format!("E\t{idx}"));
        {
            let mut rep = self.sh.report.lock().unwrap();
            rep.cases += 1;
        }
        match r {
            Ok(v) => Some(v),
            Err(_) => {
                let (msg, loc) = take_panic();
                {
                    let mut rep = self.sh.report.lock().unwrap();
                    rep.panics_caught += 1;
                }
                let harness_fault = loc.contains("/verif/harness") || loc.starts_with("src/");
                let sig = if harness_fault {
                    format!("HARNESS-PANIC/{}/{}", loc_file(&loc), short(&msg))
                } else {
                    format!("panic/{}/{}", loc_file(&loc), short(&msg))
                };
                let desc = self.sh.cur_desc.lock().unwrap().clone();
                self.violation(
                    idx,
                    &sig,
                    J::obj()
                        .set("case", desc)
                        .set("panic_message", msg)
                        .set("panic_location", loc),
                );
                None
            }
        }
    }

    /// Refine the description of the running case (shown if it panics, hangs or aborts)
    pub fn set_desc(&self, desc: &str) {
        let idx = self.sh.cur_idx.load(Ordering::SeqCst);
        let mut line = format!("B\t{idx}\t");
        crate::json::escape(desc, &mut line);
        self.wal(&line);
        *self.sh.cur_desc.lock().unwrap() = desc.to_string();
    }

    pub fn violation(&self, idx: u64, sig: &str, detail: J) {
        let mut rep = self.sh.report.lock().unwrap();
        let c = rep.sig_counts.entry(sig.to_string()).or_insert(0);
        *c += 1;
        if *c > WITNESS_PER_SIG {
            return;
        }
        let v = J::obj()
            .set("property", &self.cfg.prop)
            .set("signature", sig)
            .set("seed", self.cfg.seed)
            .set("shard", self.cfg.shard)
            .set("nshards", self.cfg.nshards)
            .set("index", idx)
            .set("tier", if self.quick() { "quick" } else { "thorough" })
            .set("profile", &self.cfg.profile)
            .set("detail", detail);
        let line = format!("V\t{}", v.dump());
        rep.violations.push(v);
        drop(rep);
        self.wal(&line);
    }

    pub fn eval(&self, n: u64) {
        self.sh.report.lock().unwrap().evaluations += n;
    }

    pub fn class(&self, name: &str) {
        self.class_n(name, 1);
    }

    pub fn class_n(&self, name: &str, n: u64) {
        let mut rep = self.sh.report.lock().unwrap();
        if let Some(c) = rep.classes.get_mut(name) {
            *c += n;
        } else {
            rep.classes.insert(name.to_string(), n);
        }
    }

    /// Record a distinct non-trivial case by hash
    pub fn distinct(&self, hash: u64) {
        let mut rep = self.sh.report.lock().unwrap();
        if rep.distinct.len() < DISTINCT_CAP {
            rep.distinct.insert(hash);
        } else {
            rep.distinct_overflow += 1;
        }
    }

    pub fn distinct_many(&self, hashes: &[u64]) {
        let mut rep = self.sh.report.lock().unwrap();
        for h in hashes {
            if rep.distinct.len() < DISTINCT_CAP {
                rep.distinct.insert(*h);
            } else {
                rep.distinct_overflow += 1;
            }
        }
    }

    /// Track the maximum of an observed quantity (residuals etc.) with its witness
    pub fn max(&self, key: &str, v: f64, witness: impl FnOnce() -> String) {
        if v.is_nan() {
            return;
        }
        let mut rep = self.sh.report.lock().unwrap();
        match rep.maxima.get_mut(key) {
            Some(m) => {
                if v > m.0 {
                    *m = (v, witness());
                }
            }
            None => {
                rep.maxima.insert(key.to_string(), (v, witness()));
            }
        }
    }

    pub fn sample(&self, s: J) {
        let mut rep = self.sh.report.lock().unwrap();
        if rep.samples.len() < SAMPLE_CAP {
            rep.samples.push(s);
        }
    }

    pub fn want_sample(&self) -> bool {
        self.sh.report.lock().unwrap().samples.len() < SAMPLE_CAP
    }

    pub fn note(&self, s: &str) {
        let mut rep = self.sh.report.lock().unwrap();
        if rep.notes.len() < 50 && !rep.notes.iter().any(|x| x == s) {
            rep.notes.push(s.to_string());
        }
    }

    pub fn uncovered(&self, s: &str) {
        let mut rep = self.sh.report.lock().unwrap();
        if !rep.uncovered.iter().any(|x| x == s) {
            rep.uncovered.push(s.to_string());
        }
    }

    pub fn extra(&self, key: &str, v: J) {
        let mut rep = self.sh.report.lock().unwrap();
        rep.extra.retain(|x| x.0 != key);
        rep.extra.push((key.to_string(), v));
    }
}

pub fn write_summary(cfg: &Cfg, sh: &Shared, status: &str, next_start: Option<u64>) {
    let rep = match sh.report.try_lock() {
        Ok(r) => r,
        Err(_) => {
            // The runner holds the lock (it cannot be inside the library then); give it a moment
            std::thread::sleep(std::time::Duration::from_millis(200));
            match sh.report.try_lock() {
                Ok(r) => r,
                Err(_) => return,
            }
        }
    };
    let mut classes = J::obj();
    for (k, v) in &rep.classes {
        classes = classes.set(k, *v);
    }
    let mut maxima = J::obj();
    for (k, v) in &rep.maxima {
        maxima = maxima.set(k, J::obj().set("max", v.0).set("at", &v.1));
    }
    let mut sigs = J::obj();
    for (k, v) in &rep.sig_counts {
        sigs = sigs.set(k, *v);
    }
    let mut extra = J::obj();
    for (k, v) in &rep.extra {
        extra = extra.set(k, v.clone());
    }
    let j = J::obj()
        .set("property", &cfg.prop)
        .set("shard", cfg.shard)
        .set("start", cfg.start)
        .set("status", status)
        .set(
            "next_start",
            match next_start {
                Some(n) => J::Int(n as i64),
                None => J::Null,
            },
        )
        .set("profile", &cfg.profile)
        .set("evaluations", rep.evaluations)
        .set("cases", rep.cases)
        .set("panics_caught", rep.panics_caught)
        .set(
            "distinct_nontrivial",
            rep.distinct.len() as u64 + rep.distinct_overflow.min(0),
        )
        .set("distinct_cap_overflow", rep.distinct_overflow)
        .set("classes", classes)
        .set("maxima", maxima)
        .set("samples", J::Arr(rep.samples.clone()))
        .set("violations", J::Arr(rep.violations.clone()))
        .set("signature_counts", sigs)
        .set("notes", rep.notes.clone())
        .set("uncovered", rep.uncovered.clone())
        .set("extra", extra);
    let p = cfg
        .out
        .join(format!("summary_{}_{}.json", cfg.shard, cfg.start));
    let _ = std::fs::write(p, j.dump());
}

/// CPU time (seconds) consumed by the thread called `name` of this process
pub struct ThreadCpu {
    stat_path: Option<PathBuf>,
}

impl ThreadCpu {
    pub fn find(name: &str) -> ThreadCpu {
        let mut stat_path = None;
        if let Ok(rd) = std::fs::read_dir("/proc/self/task") {
            for e in rd.flatten() {
                let comm = std::fs::read_to_string(e.path().join("comm")).unwrap_or_default();
                if comm.trim() == name {
                    stat_path = Some(e.path().join("stat"));
                }
            }
        }
        ThreadCpu { stat_path }
    }

    pub fn seconds(&self) -> Option<f64> {
        let p = self.stat_path.as_ref()?;
        let s = std::fs::read_to_string(p).ok()?;
        // fields after the ")" that closes comm: state is field 3; utime 14, stime 15
        let rest = s.rsplit_once(')')?.1;
        let f: Vec<&str> = rest.split_whitespace().collect();
        let utime: f64 = f.get(11)?.parse().ok()?;
        let stime: f64 = f.get(12)?.parse().ok()?;
        Some((utime + stime) / 100.0)
    }
}

/// Watch the runner thread: a case that burns more than the CPU budget is a hang candidate.
/// Returns when the runner is done; on a hang it writes the summary and exits with status 3.
pub fn monitor(cfg: &Cfg, sh: &Arc<Shared>) {
    let mut cpu = ThreadCpu::find("gv-runner");
    let mut last_seq = u64::MAX;
    let mut cpu_at_change = 0.0;
    let mut wall_at_change = std::time::Instant::now();
    loop {
        if sh.done.load(Ordering::SeqCst) {
            return;
        }
        std::thread::sleep(std::time::Duration::from_millis(50));
        if cpu.stat_path.is_none() {
            cpu = ThreadCpu::find("gv-runner");
        }
        let seq = sh.seq.load(Ordering::SeqCst);
        let now = cpu.seconds().unwrap_or(0.0);
        if seq != last_seq {
            last_seq = seq;
            cpu_at_change = now;
            wall_at_change = std::time::Instant::now();
            continue;
        }
        if !sh.in_case.load(Ordering::SeqCst) {
            continue;
        }
        let burnt = now - cpu_at_change;
        if burnt > cfg.hang_budget_s {
            let idx = sh.cur_idx.load(Ordering::SeqCst);
            let desc = sh.cur_desc.lock().map(|d| d.clone()).unwrap_or_default();
            let wall = wall_at_change.elapsed().as_secs_f64();
            {
                let mut w = sh.wal.lock().unwrap();
                let _ = writeln!(w, "H\t{idx}\t{burnt:.2}\t{wall:.2}");
                let _ = w.flush();
            }
            let v = J::obj()
                .set("property", &cfg.prop)
                .set("signature", "hang-candidate")
                .set("seed", cfg.seed)
                .set("shard", cfg.shard)
                .set("nshards", cfg.nshards)
                .set("index", idx)
                .set("tier", if cfg.tier == Tier::Quick { "quick" } else { "thorough" })
                .set("profile", &cfg.profile)
                .set(
                    "detail",
                    J::obj()
                        .set("case", desc)
                        .set("cpu_seconds_on_case", burnt)
                        .set("wall_seconds_on_case", wall)
                        .set("budget_cpu_seconds", cfg.hang_budget_s),
                );
            if let Ok(mut rep) = sh.report.try_lock() {
                rep.violations.push(v);
                *rep.sig_counts.entry("hang-candidate".to_string()).or_insert(0) += 1;
            }
            write_summary(cfg, sh, "hang", Some(idx + 1));
            std::process::exit(3);
        }
    }
}

pub fn hash_f64s(xs: &[f64]) -> u64 {
    let mut h = 0x1234_5678_9abc_def0u64;
    for x in xs {
        h = crate::rng::mix(h, x.to_bits());
    }
    h
}

pub fn hash_str(s: &str) -> u64 {
    crate::rng::fnv(s)
}
