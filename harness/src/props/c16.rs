//! C16 - definition layout is insignificant; parameters are typed as declared.
//! Two routes (layout variants of one AST) + executable model of the typing rules, read back
//! through `Context::params()`.

use super::c03::{elementary, Body, Step};
use crate::harness::{hash_str, H};
use crate::json::J;
use crate::rng::Rng;
use crate::textgen::{gamut_key, gamut_kind};
use crate::util::*;
use geodesy::authoring::*;

// ---- a user operator with every parameter kind ------------------------------------------------

#[rustfmt::skip]
const GAMUT: [OpParameter; 12] = [
    OpParameter::Flag    { key: "inv" },
    OpParameter::Flag    { key: "flag" },
    OpParameter::Flag    { key: "other" },
    OpParameter::Natural { key: "nat",    default: Some(7) },
    OpParameter::Integer { key: "int",    default: Some(-4) },
    OpParameter::Integer { key: "req",    default: None },
    OpParameter::Real    { key: "real",   default: Some(1.25) },
    OpParameter::Real    { key: "angle",  default: Some(-0.5) },
    OpParameter::Series  { key: "series", default: Some("1,2,3") },
    OpParameter::Series  { key: "empty",  default: Some("") },
    OpParameter::Text    { key: "text",   default: Some("abc") },
    OpParameter::Texts   { key: "texts",  default: Some("a, b") },
];

fn user_fwd(op: &Op, _ctx: &dyn Context, operands: &mut dyn CoordinateSet) -> usize {
    // behaviour depends on the parameters, so that differences in parsing show in the numbers
    let k = op.params.real("real").unwrap_or(0.0) + op.params.integer("int").unwrap_or(0) as f64;
    let n = operands.len();
    for i in 0..n {
        let mut c = operands.get_coord(i);
        c[0] += k;
        if op.params.boolean("flag") {
            c[1] = -c[1];
        }
        operands.set_coord(i, &c);
    }
    n
}

fn user_inv(op: &Op, _ctx: &dyn Context, operands: &mut dyn CoordinateSet) -> usize {
    let k = op.params.real("real").unwrap_or(0.0) + op.params.integer("int").unwrap_or(0) as f64;
    let n = operands.len();
    for i in 0..n {
        let mut c = operands.get_coord(i);
        c[0] -= k;
        if op.params.boolean("flag") {
            c[1] = -c[1];
        }
        operands.set_coord(i, &c);
    }
    n
}

fn user_new(parameters: &RawParameters, ctx: &dyn Context) -> Result<Op, Error> {
    Op::plain(parameters, InnerOp(user_fwd), Some(InnerOp(user_inv)), &GAMUT, ctx)
}

// ---- the reference reading of a value ------------------------------------------------------------

/// A real: decimal, or sexagesimal d:m:s with an optional hemisphere letter
pub fn ref_real(text: &str) -> Option<f64> {
    let mut t = text.trim();
    if t.is_empty() || t == "NaN" {
        return None;
    }
    let mut hemi = 1.0;
    if let Some(last) = t.chars().last() {
        if "NSEWnsew".contains(last) {
            if "SsWw".contains(last) {
                hemi = -1.0;
            }
            t = &t[..t.len() - 1];
        }
    }
    let parts: Vec<&str> = t.split(':').collect();
    if parts.len() > 3 {
        return None;
    }
    let mut v = [0.0f64; 3];
    for (i, p) in parts.iter().enumerate() {
        v[i] = p.parse::<f64>().ok()?;
    }
    let sign = if v[0].is_sign_negative() { -1.0 } else { 1.0 };
    let r = hemi * sign * (v[0].abs() + (v[1] + v[2] / 60.0) / 60.0);
    if r.is_nan() {
        None
    } else {
        Some(r)
    }
}

const REAL_TEXTS: [&str; 40] = [
    "0", "1", "-1", "+2.5", "1.5", "-0.25", "1e3", "1E3", "2.5e-3", "-1e-7", ".5", "5.", "007", "1:30", "1:30:36", "-1:30", "-0:30",
    "0:0:36", "12:30N", "12:30S", "12:30:00W", "1e", "5E", "3w", "inf", "-inf", "1e400", // accepted forms
    "", "abc", "1,5", "1:2:3:4", "x:1", "1:x", "nan", "NaN", "--1", "1..2", "é", "1°", "0x10", // rejected forms
];

const INT_TEXTS: [&str; 22] = [
    "0", "1", "-1", "+5", "42", "007", "9223372036854775807", "-9223372036854775808", // integers
    "", "1.0", "1e3", "abc", "9223372036854775808", "--1", "1:0", "é", "٣", "1_000", "0x10", " ", "-", "+",
];

fn ref_integer(text: &str) -> Option<i64> {
    text.trim().parse::<i64>().ok()
}

fn ref_natural(text: &str) -> Option<usize> {
    text.trim().parse::<usize>().ok()
}

pub fn run(h: &H) {
    let n = h.budget(24_000, 2_400_000);
    for idx in h.cases(n) {
        let mut rng = h.rng(idx);
        match idx % 6 {
            0 | 1 => {
                h.guard(idx, "layout variants", || layout(h, idx, &mut rng));
            }
            2 | 3 => {
                h.guard(idx, "typed parameters of a user operator", || typing(h, idx, &mut rng));
            }
            4 => {
                h.guard(idx, "invalid values for built-in gamuts", || builtin_typing(h, idx, &mut rng));
            }
            _ => {
                h.guard(idx, "normalisation is idempotent", || idempotent(h, idx, &mut rng));
            }
        }
    }
}

fn v(h: &H, idx: u64, sig: &str, d: J) {
    h.violation(idx, &format!("C16/{sig}"), d);
}

// ---- layout ---------------------------------------------------------------------------------------

fn ws(rng: &mut Rng) -> &'static str {
    if rng.chance(0.08) {
        // white space beyond ASCII (`char::is_whitespace`): a no-break space pasted from a
        // document, vertical tab, form feed, next line, em space, ideographic space
        return *rng.pick(&["\u{a0}", "\u{b}", "\u{c}", "\u{85}", "\u{2003}", "\u{3000}", " \u{a0}", "\u{a0} "]);
    }
    *rng.pick(&[" ", "  ", "\t", " \t ", "\n", "\r\n", "\r", "\n\n", " \n "])
}

fn maybe_ws(rng: &mut Rng) -> &'static str {
    if rng.chance(0.5) {
        ""
    } else {
        ws(rng)
    }
}

/// One step's words, in canonical order: name, parameters, modifiers as suffix flags
fn step_words(s: &Step) -> (Vec<String>, Vec<String>) {
    let base = match &s.body {
        Body::Elem(d) => d.clone(),
        Body::Macro { name, .. } => name.clone(),
    };
    let words: Vec<String> = base.split_whitespace().map(|x| x.to_string()).collect();
    let mut flags = Vec::new();
    if s.inv {
        flags.push("inv".to_string());
    }
    if s.omit_fwd {
        flags.push("omit_fwd".to_string());
    }
    if s.omit_inv {
        flags.push("omit_inv".to_string());
    }
    (words, flags)
}

fn canonical(steps: &[Step]) -> String {
    steps
        .iter()
        .map(|s| {
            let (mut w, f) = step_words(s);
            w.extend(f);
            w.join(" ")
        })
        .collect::<Vec<_>>()
        .join(" | ")
}

fn subscript(word: &str, rng: &mut Rng) -> String {
    // x_0=  <->  x₀=
    if let Some((k, val)) = word.split_once('=') {
        if let Some((stem, digit)) = k.rsplit_once('_') {
            if digit.len() == 1 && digit.chars().all(|c| c.is_ascii_digit()) && rng.chance(0.5) {
                let sub = char::from_u32(0x2080 + digit.parse::<u32>().unwrap()).unwrap();
                return format!("{stem}{sub}={val}");
            }
        }
    }
    word.to_string()
}

fn variant(steps: &[Step], rng: &mut Rng) -> String {
    let mut out = String::new();
    if rng.chance(0.2) {
        out += *rng.pick(&["\n", "  ", "# leading comment | with a bar\n", "# leading comment inv x=7\n", "\r\n", " \n: "]);
    }
    for (i, s) in steps.iter().enumerate() {
        let (words, mut flags) = step_words(s);
        // the separator: bars, or the </> sugar standing in for an omit flag
        let mut sep = "|".to_string();
        if rng.chance(0.5) {
            if let Some(p) = flags.iter().position(|f| f == "omit_fwd") {
                flags.remove(p);
                sep = "<".into();
            } else if let Some(p) = flags.iter().position(|f| f == "omit_inv") {
                flags.remove(p);
                sep = ">".into();
            }
        }
        if i > 0 || sep != "|" {
            out += maybe_ws(rng);
            out += &sep;
            if rng.chance(0.15) && sep == "|" {
                // an empty step
                out += maybe_ws(rng);
                out += "|";
            }
            out += maybe_ws(rng);
            if rng.chance(0.15) {
                out += *rng.pick(&["\n# a comment on its own line, with = and | in it\n", "\n# a comment: k_0=3 inv\n"]);
            }
            if rng.chance(0.2) {
                out += "\n: ";
            }
        }
        // modifiers: prefix, infix or suffix, bare or =true
        let mut w: Vec<String> = words.iter().map(|x| subscript(x, rng)).collect();
        let mut name_at = 0;
        rng.shuffle(&mut flags);
        for f in flags {
            let spelled = if rng.chance(0.25) { format!("{f}=true") } else { f.clone() };
            let bare = !spelled.contains('=');
            let at = match rng.below(3) {
                0 if bare => {
                    name_at += 1;
                    0
                }
                1 => name_at + 1 + rng.below(w.len() - name_at),
                _ => w.len(),
            };
            w.insert(at.min(w.len()), spelled);
        }
        for (k, word) in w.iter().enumerate() {
            if k > 0 {
                out += ws(rng);
                if rng.chance(0.1) {
                    out += "\n:";
                    out += maybe_ws(rng);
                }
            }
            // whitespace around = and ,
            let mut spaced = String::new();
            for ch in word.chars() {
                if (ch == '=' || ch == ',') && rng.chance(0.4) {
                    spaced += maybe_ws(rng);
                    spaced.push(ch);
                    spaced += maybe_ws(rng);
                } else {
                    spaced.push(ch);
                }
            }
            out += &spaced;
        }
        if rng.chance(0.15) {
            out += *rng.pick(&[
                " # trailing comment with x=999 | inv in it\n",
                " # trailing comment with x=999 s=5 inv omit_fwd in it\n",
                " # x_0=1\n",
                " #\n",
            ]);
        }
    }
    if rng.chance(0.2) {
        out += *rng.pick(&["\n", "  ", "\n# last line\n", "\n# last line x=5 inv\n", " \r\n"]);
    }
    // the line-end convention of the whole text: LF as written, or CRLF, or bare CR
    match rng.below(4) {
        0 => out.replace('\n', "\r\n"),
        1 => out.replace('\n', "\r"),
        _ => out,
    }
}

fn params_fingerprint(p: &ParsedParameters) -> String {
    let mut s = format!("name={};", p.name);
    s += &format!("flags={:?};", p.boolean);
    s += &format!("nat={:?};", p.natural);
    s += &format!("int={:?};", p.integer);
    s += &format!("real={:?};", p.real.iter().map(|(k, v)| (*k, canon(*v))).collect::<Vec<_>>());
    s += &format!("series={:?};", p.series.iter().map(|(k, v)| (*k, v.iter().map(|x| canon(*x)).collect::<Vec<_>>())).collect::<Vec<_>>());
    s += &format!("text={:?};", p.text);
    s += &format!("texts={:?};", p.texts);
    s
}

fn layout(h: &H, idx: u64, rng: &mut Rng) {
    // an AST of 1..5 elementary steps with modifiers (single steps only carry `inv`)
    let n = 1 + rng.below(5);
    let steps: Vec<Step> = (0..n)
        .map(|_| Step {
            body: Body::Elem(if rng.chance(0.3) {
                format!("tmerc lon_0={} x_0={} k_0=0.9996", rng.int(-20, 20), rng.int(0, 9) * 100000)
            } else {
                elementary(rng)
            }),
            inv: rng.chance(0.3),
            omit_fwd: n > 1 && rng.chance(0.15),
            omit_inv: n > 1 && rng.chance(0.15),
        })
        .collect();
    let canon_text = canonical(&steps);
    h.distinct(hash_str(&canon_text));
    h.class(if n == 1 { "layout/single-step" } else { "layout/pipeline" });
    let mut ctx = Minimal::new();
    let mut plain = Plain::new();
    let base = match ctx.op(&canon_text) {
        Ok(op) => op,
        Err(e) => {
            v(h, idx, "layout/canonical-text-rejected", J::obj().set("definition", &canon_text).set("error", format!("{e}")));
            return;
        }
    };
    let base_steps = ctx.steps(base).cloned().unwrap_or_default();
    let nsteps = base_steps.len().max(1);
    // the modifiers are flags like any other: true where written, false where not, each on its own
    if nsteps == steps.len() {
        for (i, st) in steps.iter().enumerate() {
            let Ok(p) = ctx.params(base, i) else { continue };
            h.eval(1);
            // (`inv` is a flag only for operators that list it in their gamut - `noop` does not -
            // so it is left to the behavioural comparison; the omit modifiers are valid everywhere)
            for (flag, written) in [("omit_fwd", st.omit_fwd), ("omit_inv", st.omit_inv)] {
                if p.boolean(flag) != written {
                    v(
                        h,
                        idx,
                        &format!("layout/modifier-flag-value/{flag}/{}", if written { "written-but-false" } else { "true-but-not-written" }),
                        J::obj().set("definition", &canon_text).set("step", i).set("flag", flag).set("written", written).set("inv_omit_fwd_omit_inv", format!("{} {} {}", st.inv, st.omit_fwd, st.omit_inv)),
                    );
                    return;
                }
            }
            if st.omit_fwd && st.omit_inv {
                h.class("layout/step-with-both-omit-modifiers");
            }
        }
    }
    let base_params: Vec<String> = (0..nsteps).map(|i| ctx.params(base, i).map(|p| params_fingerprint(&p)).unwrap_or_default()).collect();
    let probes: Vec<Coor4D> = (0..3).map(|i| Coor4D([0.1 + 0.05 * i as f64, 0.9 - 0.1 * i as f64, 30.0 * i as f64, 2000.0])).collect();
    let mut want_f = probes.clone();
    let mut want_i = probes.clone();
    let cf = apply_set(&ctx, base, D::F, &mut want_f);
    let ci = apply_set(&ctx, base, D::I, &mut want_i);
    for k in 0..8 {
        let text = variant(&steps, rng);
        if h.want_sample() && idx % 300 == 0 && k == 0 {
            h.sample(J::obj().set("canonical", &canon_text).set("variant", &text));
        }
        let detail = |what: &str| J::obj().set("what", what).set("canonical", &canon_text).set("variant", &text);
        for use_plain in [false, true] {
            let r = if use_plain { plain.op(&text) } else { ctx.op(&text) };
            h.eval(1);
            let op = match r {
                Ok(op) => op,
                Err(e) => {
                    v(h, idx, "layout/variant-rejected", detail("a layout variant of a valid definition is rejected").set("error", format!("{e}")).set("context", if use_plain { "Plain" } else { "Minimal" }));
                    return;
                }
            };
            let (st, pars, gf, gi, c1, c2) = if use_plain {
                let st = plain.steps(op).cloned().unwrap_or_default();
                let pars: Vec<String> = (0..nsteps).map(|i| plain.params(op, i).map(|p| params_fingerprint(&p)).unwrap_or_default()).collect();
                let (mut a, mut b) = (probes.clone(), probes.clone());
                let c1 = apply_set(&plain, op, D::F, &mut a);
                let c2 = apply_set(&plain, op, D::I, &mut b);
                (st, pars, a, b, c1, c2)
            } else {
                let st = ctx.steps(op).cloned().unwrap_or_default();
                let pars: Vec<String> = (0..nsteps).map(|i| ctx.params(op, i).map(|p| params_fingerprint(&p)).unwrap_or_default()).collect();
                let (mut a, mut b) = (probes.clone(), probes.clone());
                let c1 = apply_set(&ctx, op, D::F, &mut a);
                let c2 = apply_set(&ctx, op, D::I, &mut b);
                (st, pars, a, b, c1, c2)
            };
            let same_behaviour = (0..probes.len()).all(|i| same_bits(&gf[i].0, &want_f[i].0) && same_bits(&gi[i].0, &want_i[i].0)) && c1 == cf && c2 == ci;
            if !same_behaviour {
                v(
                    h,
                    idx,
                    if n == 1 { "layout/single-step-behaviour-differs" } else { "layout/pipeline-behaviour-differs" },
                    detail("layout variants behave differently")
                        .set("canonical_forward", J::Arr(want_f.iter().map(|c| J::coords(&c.0)).collect()))
                        .set("variant_forward", J::Arr(gf.iter().map(|c| J::coords(&c.0)).collect())),
                );
                return;
            }
            // step lists: identical after normalisation of modifier positions and sugar
            let norm = |v: &Vec<String>| -> Vec<Vec<String>> {
                v.iter()
                    .map(|s| {
                        let mut w: Vec<String> = s.split_whitespace().map(|x| x.trim_end_matches("=true").to_string()).collect();
                        w.sort();
                        w
                    })
                    .collect()
            };
            if norm(&st) != norm(&base_steps) {
                v(h, idx, "layout/step-lists-differ", detail("steps() differs between layout variants").set("canonical_steps", format!("{base_steps:?}")).set("variant_steps", format!("{st:?}")));
                return;
            }
            if pars != base_params {
                v(h, idx, "layout/parameters-differ", detail("params() differs between layout variants").set("canonical_params", format!("{base_params:?}")).set("variant_params", format!("{pars:?}")));
                return;
            }
        }
    }
}

fn idempotent(h: &H, idx: u64, rng: &mut Rng) {
    let n = 1 + rng.below(4);
    let steps: Vec<Step> = (0..n)
        .map(|_| Step {
            body: Body::Elem(elementary(rng)),
            inv: rng.chance(0.3),
            omit_fwd: rng.chance(0.15),
            omit_inv: rng.chance(0.15),
        })
        .collect();
    let text = variant(&steps, rng);
    let once = text.normalize();
    let twice = once.normalize();
    h.eval(1);
    h.distinct(hash_str(&text));
    h.class("normalize/idempotent");
    if once != twice {
        v(h, idx, "normalize-not-idempotent", J::obj().set("text", &text).set("once", &once).set("twice", &twice));
        return;
    }
    // steps of the normalised text are the steps of the text
    let a = text.split_into_steps();
    let b = a.join("|").split_into_steps();
    if a != b {
        v(h, idx, "split-into-steps-not-stable", J::obj().set("text", &text).set("steps", format!("{a:?}")).set("steps_of_rejoined", format!("{b:?}")));
    }
}

// ---- typing ------------------------------------------------------------------------------------------

fn typing(h: &H, idx: u64, rng: &mut Rng) {
    let mut ctx = Minimal::new();
    ctx.register_op("typed", OpConstructor(user_new));
    // what is written, and what the documented rules say it means
    let mut words: Vec<String> = vec!["typed".into()];
    let mut expect_err: Option<(&str, String)> = None; // (kind, key)
    let mut flag = false;
    let mut nat: usize = 7;
    let mut int: i64 = -4;
    let mut real: f64 = 1.25;
    let mut angle: f64 = -0.5;
    let mut series: Option<Vec<f64>> = Some(vec![1.0, 2.0, 3.0]);
    let mut text = "abc".to_string();
    let mut texts: Vec<String> = vec!["a".into(), "b".into()];
    let mut req: Option<i64> = None;
    let note_err = |kind: &'static str, key: &str, e: &mut Option<(&'static str, String)>| {
        if e.is_none() {
            *e = Some((kind, key.to_string()));
        }
    };
    // the gamut is scanned in its declared order, so the first offending key (in gamut order)
    // is the one named: collect per key, decide afterwards
    let mut bad: Vec<(&'static str, &'static str)> = Vec::new();
    // required parameter
    if rng.chance(0.9) {
        let t = *rng.pick(&INT_TEXTS[..8]);
        words.push(format!("req={t}"));
        req = ref_integer(t);
    }
    if rng.chance(0.5) {
        match rng.below(5) {
            4 => {
                // present with an empty value (only possible as the last word): true
                words.push("flag=".into());
                flag = true;
            }
            0 => {
                words.push("flag".into());
                flag = true;
            }
            1 => {
                words.push("flag=true".into());
                flag = true;
            }
            2 => {
                words.push("flag=TRUE".into());
                flag = true;
            }
            _ => {
                words.push("flag=maybe".into());
                bad.push(("flag", "BadParam"));
            }
        }
    }
    if rng.chance(0.5) {
        let t = *rng.pick(&INT_TEXTS);
        if !t.trim().is_empty() || rng.chance(0.3) {
            words.push(format!("nat={}", t.trim()));
            match ref_natural(t) {
                Some(x) => nat = x,
                None => bad.push(("nat", "BadParam")),
            }
        }
    }
    if rng.chance(0.5) {
        let t = *rng.pick(&INT_TEXTS);
        if !t.trim().is_empty() || rng.chance(0.3) {
            words.push(format!("int={}", t.trim()));
            match ref_integer(t) {
                Some(x) => int = x,
                None => bad.push(("int", "BadParam")),
            }
        }
    }
    for (key, slot) in [("real", &mut real), ("angle", &mut angle)] {
        if rng.chance(0.6) {
            let t = *rng.pick(&REAL_TEXTS);
            words.push(format!("{key}={t}"));
            match ref_real(t) {
                Some(x) => *slot = x,
                None => bad.push((key, "BadParam")),
            }
            // repeated keys: the last one wins
            if rng.chance(0.2) {
                let t2 = *rng.pick(&REAL_TEXTS[..27]);
                words.push(format!("{key}={t2}"));
                bad.retain(|b| b.0 != key);
                match ref_real(t2) {
                    Some(x) => *slot = x,
                    None => bad.push((key, "BadParam")),
                }
            }
        }
    }
    if rng.chance(0.5) {
        let k = 1 + rng.below(4);
        let items: Vec<&str> = (0..k)
            .map(|_| {
                let good = rng.chance(0.85);
                *rng.pick(if good { &REAL_TEXTS[..27] } else { &REAL_TEXTS[27..] })
            })
            .collect();
        // an empty item would end the value in a comma, which swallows the next word
        if items.iter().all(|t| !t.contains(',') && !t.is_empty()) {
            words.push(format!("series={}", items.join(",")));
            let vals: Vec<Option<f64>> = items.iter().map(|t| ref_real(t)).collect();
            if vals.iter().all(|x| x.is_some()) {
                series = Some(vals.into_iter().map(|x| x.unwrap()).collect());
            } else {
                bad.push(("series", "BadParam"));
            }
        }
    }
    if rng.chance(0.4) {
        let t = *rng.pick(&["hello", "GRS80", "é𝐑", "a:b", "1,2", "x.y-z", "true"]);
        words.push(format!("text={t}"));
        text = t.to_string();
    }
    if rng.chance(0.4) {
        let t = *rng.pick(&["one", "one,two", "é,𝐑,z", "a:b,c", "x"]);
        words.push(format!("texts={t}"));
        texts = t.split(',').map(|x| x.to_string()).collect();
    }
    // unknown keys are ignored
    if rng.chance(0.4) {
        words.push(format!("{}={}", rng.pick(&["unknown", "zzz", "Real", "nat2"]), rng.pick(&["1", "abc", "1:2:3:4"])));
    }
    if req.is_none() && !words.iter().any(|w| w.starts_with("req=")) {
        bad.push(("req", "MissingParam"));
    }
    // the error names the first offending key in gamut order
    let order = ["flag", "nat", "int", "req", "real", "angle", "series"];
    for k in order {
        if let Some(b) = bad.iter().find(|b| b.0 == k) {
            note_err(b.1, b.0, &mut expect_err);
            break;
        }
    }
    // shuffle everything but the name, write with random whitespace
    let name = words.remove(0);
    // keep the relative order of repeated keys
    let mut order_idx: Vec<usize> = (0..words.len()).collect();
    rng.shuffle(&mut order_idx);
    let mut shuffled: Vec<String> = Vec::new();
    {
        // stable with respect to equal keys
        let key_of = |w: &String| w.split('=').next().unwrap_or("").to_string();
        let mut by_key: std::collections::BTreeMap<String, Vec<String>> = Default::default();
        for w in &words {
            by_key.entry(key_of(w)).or_default().push(w.clone());
        }
        let mut used: std::collections::BTreeMap<String, usize> = Default::default();
        for i in order_idx {
            let k = key_of(&words[i]);
            let n = used.entry(k.clone()).or_insert(0);
            shuffled.push(by_key[&k][*n].clone());
            *n += 1;
        }
    }
    // a value that is empty swallows the next word ("a= b=1" reads as a=b=1): an empty value
    // is only well-formed as the last thing in the definition
    let empties: Vec<String> = shuffled.iter().filter(|w| w.ends_with('=')).cloned().collect();
    shuffled.retain(|w| !w.ends_with('='));
    if let Some(last) = empties.last() {
        // keep at most one, at the end; the others are dropped together with their expectation
        let key = last.trim_end_matches('=').to_string();
        let repeated = shuffled.iter().any(|w| w.split('=').next() == Some(key.as_str()));
        if empties.len() > 1 || repeated {
            h.class("typing/skipped-several-empty-values");
            return;
        }
        shuffled.push(last.clone());
    }
    let def = format!("{name} {}", shuffled.join(ws(rng)));
    h.distinct(hash_str(&def));
    if h.want_sample() && idx % 250 == 2 {
        h.sample(J::obj().set("definition", &def).set("expected", format!("{expect_err:?}")));
    }
    let r = ctx.op(&def);
    h.eval(1);
    let detail = || J::obj().set("definition", &def);
    match (r, &expect_err) {
        (Err(e), Some((kind, key))) => {
            h.class(&format!("typing/rejected/{kind}"));
            let named = match &e {
                Error::BadParam(k, _) => *kind == "BadParam" && k == key,
                Error::MissingParam(k) => *kind == "MissingParam" && k == key,
                _ => false,
            };
            if !named {
                v(h, idx, &format!("typing/error-does-not-name-the-parameter/{key}"), detail().set("expected", format!("{kind}({key})")).set("got", format!("{e:?}")));
            }
        }
        (Ok(_), Some((kind, key))) => {
            v(h, idx, &format!("typing/invalid-value-accepted/{key}"), detail().set("expected", format!("{kind}({key})")));
        }
        (Err(e), None) => {
            v(h, idx, "typing/valid-definition-rejected", detail().set("error", format!("{e:?}")));
        }
        (Ok(op), None) => {
            h.class("typing/accepted");
            let Ok(p) = ctx.params(op, 0) else {
                v(h, idx, "typing/params-unavailable", detail());
                return;
            };
            let ulp2 = |a: f64, b: f64| canon(a) == canon(b) || (a - b).abs() <= 2.0 * crate::geo::ulp(b);
            let got_series = p.series.get("series").cloned();
            let ok = p.boolean.contains("flag") == flag
                && !p.boolean.contains("other")
                && p.natural.get("nat") == Some(&nat)
                && p.integer.get("int") == Some(&int)
                && p.integer.get("req").copied() == req
                && p.real.get("real").map(|x| ulp2(*x, real)).unwrap_or(false)
                && p.real.get("angle").map(|x| ulp2(*x, angle)).unwrap_or(false)
                && match (&got_series, &series) {
                    (Some(a), Some(b)) => a.len() == b.len() && a.iter().zip(b.iter()).all(|(x, y)| ulp2(*x, *y)),
                    (None, None) => true,
                    _ => false,
                }
                && !p.series.contains_key("empty")
                && p.text.get("text") == Some(&text)
                && p.texts.get("texts") == Some(&texts);
            if !ok {
                v(
                    h,
                    idx,
                    "typing/read-back-differs-from-what-was-written",
                    detail()
                        .set("read_back", params_fingerprint(&p))
                        .set(
                            "expected",
                            format!("flag={flag} nat={nat} int={int} req={req:?} real={real} angle={angle} series={series:?} text={text:?} texts={texts:?}"),
                        ),
                );
            }
        }
    }
}

/// Built-in gamuts: a value that is not of the declared type is rejected with an error naming
/// that parameter
fn builtin_typing(h: &H, idx: u64, rng: &mut Rng) {
    let names = geodesy::verif::builtin_operator_names();
    let name = *rng.pick(&names);
    let gamut = geodesy::verif::gamut(name).unwrap_or_default();
    let numeric: Vec<&OpParameter> = gamut.iter().filter(|p| matches!(gamut_kind(p), "natural" | "integer" | "real" | "series" | "flag")).collect();
    if numeric.is_empty() {
        h.class("builtin-typing/no-typed-parameter");
        return;
    }
    let p = *rng.pick(&numeric);
    let key = gamut_key(p);
    if key == "inv" {
        return;
    }
    let bad = match gamut_kind(p) {
        "flag" => *rng.pick(&["maybe", "0", "no"]),
        "natural" => *rng.pick(&["-1", "1.5", "abc", ""]),
        "integer" => *rng.pick(&["1.5", "abc", "1e3"]),
        _ => *rng.pick(&["abc", "1:2:3:4", "nan", "1;2", "é"]),
    };
    // a definition that is valid except for this one value
    let base = match name {
        "utm" | "butm" => format!("{name} zone=32"),
        "permtide" => "permtide from=mean to=zero".to_string(),
        "latitude" => "latitude geocentric".to_string(),
        "curvature" => "curvature mean".to_string(),
        "lcc" => "lcc lat_1=30".to_string(),
        "omerc" => "omerc latc=30 alpha=40".to_string(),
        "gridshift" | "deflection" => format!("{name} grids=test.datum"),
        "deformation" => "deformation grids=test.deformation dt=1".to_string(),
        "stack" => "stack".to_string(),
        "pipeline" | "push" | "pop" => return,
        _ => name.to_string(),
    };
    let base = base.split_whitespace().filter(|w| !w.starts_with(&format!("{key}="))).collect::<Vec<_>>().join(" ");
    let def = format!("{base} {key}={bad}");
    let mut ctx = Plain::new();
    let r = ctx.op(&def);
    h.eval(1);
    h.distinct(hash_str(&def));
    h.class(&format!("builtin-typing/{}", gamut_kind(p)));
    match r {
        Ok(_) => v(h, idx, &format!("typing/builtin-accepts-ill-typed-value/{name}/{key}"), J::obj().set("definition", &def)),
        Err(Error::BadParam(k, _)) if k == key => {}
        Err(e) => {
            // an error that does not name the parameter
            v(h, idx, &format!("typing/builtin-error-does-not-name-the-parameter/{name}/{key}"), J::obj().set("definition", &def).set("error", format!("{e:?}")));
        }
    }
}
