//! C14 - independent implementations of the same quantity agree (two routes, one build):
//! tmerc/btmerc, cart operator/ellipsoid methods, latitude/curvature/geodesic/gravity operators
//! vs the trait methods, axisswap/unitconvert/adapt, Minimal/Plain, series vs closed forms.

use crate::catalog::{self, D2R};
use crate::geo::Ell;
use crate::harness::{hash_str, H};
use crate::json::J;
use crate::rng::{mix, Rng};
use crate::util::*;
use geodesy::authoring::*;

fn builtin(rng: &mut Rng, spheres: bool) -> (String, Ell) {
    loop {
        let (n, e) = catalog::pick_ellps(rng, spheres);
        if !n.contains(',') && catalog::size(&e) == 1.0 {
            return (n, e);
        }
    }
}

/// The library's own ellipsoid for the same `ellps=` text the operator gets
fn named(en: &str, ell: &Ell) -> Ellipsoid {
    Ellipsoid::named(en).unwrap_or(lib_ell(ell))
}

pub fn run(h: &H) {
    let n = h.budget(6_000, 600_000);
    for idx in h.cases(n) {
        let mut rng = h.rng(idx);
        let kind = idx % 10;
        h.guard(idx, &format!("two-route pair kind {kind}"), || case(h, idx, kind, &mut rng));
    }
}

fn v(h: &H, idx: u64, sig: &str, detail: J) {
    h.violation(idx, &format!("C14/{sig}"), detail);
}

fn case(h: &H, idx: u64, kind: u64, rng: &mut Rng) {
    let mut ctx = Minimal::new();
    match kind {
        // tmerc vs btmerc within 3 degrees: sub-millimetre, both directions
        0 => {
            let (en, ell) = builtin(rng, true);
            let lon0 = rng.short_decimal(-180.0, 180.0, 2);
            let lat0 = rng.short_decimal(-80.0, 80.0, 2);
            let k0 = rng.short_decimal(0.99, 1.01, 4);
            let pars = format!("ellps={en} lon_0={} lat_0={} k_0={} x_0=500000 y_0=-250000", num(lon0), num(lat0), num(k0));
            let (Ok(t), Ok(b)) = (ctx.op(&format!("tmerc {pars}")), ctx.op(&format!("btmerc {pars}"))) else {
                v(h, idx, "tmerc-btmerc/instantiation", J::obj().set("parameters", &pars));
                return;
            };
            h.class("tmerc-vs-btmerc");
            if h.want_sample() {
                h.sample(J::obj().set("routes", "tmerc vs btmerc").set("parameters", &pars));
            }
            h.distinct(hash_str(&pars));
            for _ in 0..40 {
                let p = [(lon0 + rng.range(-3.0, 3.0)) * D2R, rng.range(-89.0, 89.0) * D2R, 0.0, 0.0];
                let (a, _) = apply1(&ctx, t, D::F, p);
                let (c, _) = apply1(&ctx, b, D::F, p);
                h.eval(2);
                let d = (a[0] - c[0]).hypot(a[1] - c[1]);
                h.max("tmerc vs btmerc forward (m)", d, || format!("{pars} at {}", fmt4(&p)));
                if !(d <= 1.0e-3) {
                    v(h, idx, "tmerc-btmerc/forward", J::obj().set("parameters", &pars).set("input", J::bits(&p)).set("tmerc", J::bits(&a)).set("btmerc", J::bits(&c)).set("difference_m", d));
                    return;
                }
                let (ia, _) = apply1(&ctx, t, D::I, a);
                let (ic, _) = apply1(&ctx, b, D::I, a);
                let g = ell.ground(ia[0], ia[1], ic[0], ic[1]);
                h.max("tmerc vs btmerc inverse (m on the ground)", g, || format!("{pars} at {}", fmt4(&a)));
                if !(g <= 1.0e-3) {
                    v(h, idx, "tmerc-btmerc/inverse", J::obj().set("parameters", &pars).set("input", J::bits(&a)).set("tmerc", J::bits(&ia)).set("btmerc", J::bits(&ic)).set("difference_m", g));
                    return;
                }
            }
        }
        // cart operator vs the ellipsoid's own conversions
        1 => {
            let (en, ell) = builtin(rng, true);
            let e = named(&en, &ell);
            let Ok(op) = ctx.op(&format!("cart ellps={en}")) else { return };
            h.class("cart-vs-ellipsoid-methods");
            h.distinct(mix(hash_str(&en), idx));
            for _ in 0..40 {
                let mut p = [rng.range(-3.14, 3.14), rng.range(-90.0, 90.0) * D2R, rng.range(-1.0e4, 1.0e5), 2020.5];
                if rng.chance(0.05) {
                    p[1] = std::f64::consts::FRAC_PI_2.copysign(p[1]);
                }
                let (a, _) = apply1(&ctx, op, D::F, p);
                let m = e.cartesian(&Coor4D(p)).0;
                h.eval(2);
                if !same_bits(&a, &m) {
                    v(h, idx, "cart/forward-not-identical", J::obj().set("ellps", &en).set("input", J::bits(&p)).set("operator", J::bits(&a)).set("method", J::bits(&m)));
                    return;
                }
                let (ia, _) = apply1(&ctx, op, D::I, a);
                let im = e.geographic(&Coor4D(a)).0;
                let g = ell.ground(ia[0], ia[1], im[0], im[1]) + (ia[2] - im[2]).abs();
                h.max("cart inverse: operator vs method (m)", g, || format!("{en} at {}", fmt4(&p)));
                if !(g <= 1.0e-3) {
                    v(h, idx, "cart/inverse-disagrees", J::obj().set("ellps", &en).set("input", J::bits(&a)).set("operator", J::bits(&ia)).set("method", J::bits(&im)).set("difference_m", g));
                    return;
                }
            }
        }
        // latitude operator vs trait methods (bit)
        2 => {
            let (en, ell) = catalog::pick_ellps(rng, true);
            let e = named(&en, &ell);
            let kinds = ["geocentric", "reduced", "parametric", "conformal", "authalic", "rectifying"];
            let k = *rng.pick(&kinds);
            let Ok(op) = ctx.op(&format!("latitude {k} ellps={en}")) else {
                v(h, idx, "latitude/instantiation", J::obj().set("kind", k).set("ellps", &en));
                return;
            };
            h.class(&format!("latitude-op-vs-method/{k}"));
            h.distinct(mix(hash_str(&en), hash_str(k)));
            for _ in 0..40 {
                let lat = rng.range(-90.0, 90.0) * D2R;
                let p = [0.3, lat, 10.0, 0.0];
                let (f, _) = apply1(&ctx, op, D::F, p);
                let (i, _) = apply1(&ctx, op, D::I, p);
                let (mf, mi) = match k {
                    "geocentric" => (e.latitude_geographic_to_geocentric(lat), e.latitude_geocentric_to_geographic(lat)),
                    "reduced" | "parametric" => (e.latitude_geographic_to_reduced(lat), e.latitude_reduced_to_geographic(lat)),
                    "conformal" => {
                        let c = e.coefficients_for_conformal_latitude_computations();
                        (e.latitude_geographic_to_conformal(lat, &c), e.latitude_conformal_to_geographic(lat, &c))
                    }
                    "authalic" => {
                        let c = e.coefficients_for_authalic_latitude_computations();
                        (e.latitude_geographic_to_authalic(lat, &c), e.latitude_authalic_to_geographic(lat, &c))
                    }
                    _ => {
                        let c = e.coefficients_for_rectifying_latitude_computations();
                        (e.latitude_geographic_to_rectifying(lat, &c), e.latitude_rectifying_to_geographic(lat, &c))
                    }
                };
                h.eval(2);
                if canon(f[1]) != canon(mf) || canon(i[1]) != canon(mi) {
                    v(h, idx, &format!("latitude-op-differs-from-method/{k}"), J::obj().set("ellps", &en).set("latitude", lat).set("operator_fwd_inv", J::coords(&[f[1], i[1]])).set("method_fwd_inv", J::coords(&[mf, mi])));
                    return;
                }
            }
        }
        // curvature and gravity operators vs trait methods
        3 => {
            let (en, ell) = catalog::pick_ellps(rng, true);
            let e = named(&en, &ell);
            let ck = *rng.pick(&["prime", "meridian", "gaussian", "mean", "azimuthal"]);
            let gk = *rng.pick(&["cassinis", "jeffreys", "grs67", "grs80", "welmec"]);
            let (Ok(c), Ok(g)) = (ctx.op(&format!("curvature {ck} ellps={en}")), ctx.op(&format!("gravity {gk} ellps={en}"))) else {
                v(h, idx, "curvature-gravity/instantiation", J::obj().set("ellps", &en));
                return;
            };
            let g0 = ctx.op(&format!("gravity {gk} zero-height ellps={en}")).ok();
            h.class(&format!("curvature/{ck}"));
            h.class(&format!("gravity/{gk}"));
            if g0.is_some() {
                h.class(&format!("gravity/{gk}/zero-height"));
            }
            h.distinct(mix(hash_str(&en), hash_str(ck) ^ hash_str(gk)));
            for _ in 0..30 {
                let latd = rng.range(-90.0, 90.0);
                let az = rng.range(-180.0, 180.0);
                let lat = latd.to_radians();
                let (r, _) = apply1(&ctx, c, D::F, [latd, az, 0.0, 0.0]);
                let m = e.meridian_radius_of_curvature(lat);
                let n = e.prime_vertical_radius_of_curvature(lat);
                let want = match ck {
                    "prime" => n,
                    "meridian" => m,
                    "gaussian" => (n * m).sqrt(),
                    "mean" => 2.0 * (n.recip() + m.recip()).recip(),
                    _ => {
                        let (s, co) = az.to_radians().sin_cos();
                        (co * co / m + s * s / n).recip()
                    }
                };
                h.eval(1);
                if !((r[0] - want).abs() <= 4.0 * crate::geo::ulp(want)) {
                    v(h, idx, &format!("curvature-op-differs-from-method/{ck}"), J::obj().set("ellps", &en).set("latitude_deg", latd).set("azimuth_deg", az).set("operator", r[0]).set("method", want));
                    return;
                }
                let hgt = rng.range(0.0, 3000.0);
                let (gr, _) = apply1(&ctx, g, D::F, [latd, hgt, 0.0, 0.0]);
                let gw = match gk {
                    "welmec" => e.welmec(lat, hgt),
                    "grs80" => e.grs80_gravity(lat) - e.grs67_height_correction(lat, hgt),
                    "grs67" => e.grs67_gravity(lat) - e.grs67_height_correction(lat, hgt),
                    "jeffreys" => e.jeffreys_gravity_1948(lat) - e.cassinis_height_correction(hgt, 2800.0),
                    _ => e.cassinis_gravity_1930(lat) - e.cassinis_height_correction(hgt, 2800.0),
                };
                h.eval(1);
                if !((gr[0] - gw).abs() <= 4.0 * crate::geo::ulp(gw)) {
                    v(h, idx, &format!("gravity-op-differs-from-method/{gk}"), J::obj().set("ellps", &en).set("latitude_deg", latd).set("height", hgt).set("operator", gr[0]).set("method", gw));
                    return;
                }
                // with the zero-height flag the height of the input is not used
                if let Some(g0) = g0 {
                    let (gz, _) = apply1(&ctx, g0, D::F, [latd, hgt, 0.0, 0.0]);
                    let gw0 = match gk {
                        "welmec" => e.welmec(lat, 0.0),
                        "grs80" => e.grs80_gravity(lat),
                        "grs67" => e.grs67_gravity(lat),
                        "jeffreys" => e.jeffreys_gravity_1948(lat),
                        _ => e.cassinis_gravity_1930(lat),
                    };
                    h.eval(1);
                    if !((gz[0] - gw0).abs() <= 4.0 * crate::geo::ulp(gw0)) {
                        v(h, idx, &format!("gravity-op-differs-from-method/{gk}/zero-height"), J::obj().set("ellps", &en).set("latitude_deg", latd).set("height", hgt).set("operator", gz[0]).set("method_at_height_zero", gw0));
                        return;
                    }
                }
            }
        }
        // geodesic operator vs trait methods
        4 => {
            let (en, ell) = builtin(rng, true);
            let e = named(&en, &ell);
            let Ok(op) = ctx.op(&format!("geodesic ellps={en}")) else { return };
            h.class("geodesic-op-vs-method");
            h.distinct(mix(hash_str(&en), idx));
            for _ in 0..20 {
                let (lat, lon) = (rng.range(-85.0, 85.0), rng.range(-180.0, 180.0));
                let az = rng.range(-180.0, 180.0);
                let dist = rng.range(10.0, 1.5e7);
                let (r, _) = apply1(&ctx, op, D::F, [lat, lon, az, dist]);
                let dest = e.geodesic_fwd(&Coor2D::geo(lat, lon), az.to_radians(), dist).to_degrees();
                h.eval(1);
                if !((r[0] - dest[1]).abs() <= 1e-12 && (r[1] - dest[0]).abs() <= 1e-12) {
                    v(h, idx, "geodesic-op-differs-from-method/fwd", J::obj().set("ellps", &en).set("input", J::coords(&[lat, lon, az, dist])).set("operator", J::coords(&r)).set("method_lon_lat", J::coords(&dest.0)));
                    return;
                }
                let (lat2, lon2) = (rng.range(-85.0, 85.0), lon + rng.range(-120.0, 120.0));
                let (ri, _) = apply1(&ctx, op, D::I, [lat, lon, lat2, lon2]);
                let g = e.geodesic_inv(&Coor2D::geo(lat, lon), &Coor2D::geo(lat2, lon2)).to_degrees();
                h.eval(1);
                if any_nan(&ri) && g[3] > 990.0 {
                    continue;
                }
                if !((ri[0] - g[0]).abs() <= 1e-12 && (ri[2] - g[2]).abs() <= 1e-9) {
                    v(h, idx, "geodesic-op-differs-from-method/inv", J::obj().set("ellps", &en).set("input", J::coords(&[lat, lon, lat2, lon2])).set("operator", J::coords(&ri)).set("method", J::coords(&g.0)));
                    return;
                }
            }
        }
        // axisswap == adapt for shared permutations and sign flips (bit)
        5 => {
            let pairs = [['e', 'w'], ['n', 's'], ['u', 'd'], ['f', 'p']];
            let mut axes = [0usize, 1, 2, 3];
            rng.shuffle(&mut axes);
            let neg: Vec<bool> = (0..4).map(|_| rng.chance(0.5)).collect();
            // adapt from=D: external position i holds internal axis axes[i] (sign neg[i]).
            // The same as axisswap inverse with order (axes[i]+1, signed): out[axes[i]] = in[i]*sign
            let mut desc = String::new();
            let mut order = Vec::new();
            for i in 0..4 {
                desc.push(pairs[axes[i]][if neg[i] { 1 } else { 0 }]);
                order.push(format!("{}{}", if neg[i] { "-" } else { "" }, axes[i] + 1));
            }
            let adef = format!("adapt from={desc}");
            let sdef = format!("axisswap inv order={}", order.join(","));
            let (Ok(a), Ok(s)) = (ctx.op(&adef), ctx.op(&sdef)) else {
                v(h, idx, "axisswap-adapt/instantiation", J::obj().set("adapt", &adef).set("axisswap", &sdef));
                return;
            };
            h.class("axisswap-vs-adapt");
            if h.want_sample() {
                h.sample(J::obj().set("routes", "axisswap vs adapt").set("adapt", &adef).set("axisswap", &sdef));
            }
            h.distinct(hash_str(&adef));
            for d in [D::F, D::I] {
                let p = [rng.range(-9.0, 9.0), rng.range(10.0, 90.0), rng.range(100.0, 900.0), rng.range(1000.0, 9000.0)];
                let (ra, _) = apply1(&ctx, a, d, p);
                let (rs, _) = apply1(&ctx, s, d, p);
                h.eval(2);
                if !same_bits(&ra, &rs) {
                    v(h, idx, &format!("axisswap-differs-from-adapt/{}", d.name()), J::obj().set("adapt", &adef).set("axisswap", &sdef).set("input", J::coords(&p)).set("adapt_result", J::coords(&ra)).set("axisswap_result", J::coords(&rs)));
                    return;
                }
            }
        }
        // unitconvert == adapt for deg/gon <-> rad
        6 => {
            let (unit, suffix) = *rng.pick(&[("deg", "_deg"), ("grad", "_gon")]);
            // half of the time with the axes in any order and of any sign: the angular unit
            // belongs to the horizontal axes wherever the descriptor puts them, so adapt equals
            // the re-ordering followed by the unit conversion of the first two (internal) axes
            let (adef, udef) = if rng.chance(0.5) {
                let pairs = [['e', 'w'], ['n', 's'], ['u', 'd'], ['f', 'p']];
                let mut axes = [0usize, 1, 2, 3];
                rng.shuffle(&mut axes);
                let neg: Vec<bool> = (0..4).map(|_| rng.chance(0.5)).collect();
                let mut desc = String::new();
                let mut order = Vec::new();
                for i in 0..4 {
                    desc.push(pairs[axes[i]][if neg[i] { 1 } else { 0 }]);
                    order.push(format!("{}{}", if neg[i] { "-" } else { "" }, axes[i] + 1));
                }
                (format!("adapt from={desc}{suffix}"), format!("axisswap inv order={} | unitconvert xy_in={unit} xy_out=rad", order.join(",")))
            } else {
                (format!("adapt from=enuf{suffix}"), format!("unitconvert xy_in={unit} xy_out=rad"))
            };
            let (Ok(a), Ok(u)) = (ctx.op(&adef), ctx.op(&udef)) else {
                v(h, idx, "unitconvert-adapt/instantiation", J::obj().set("adapt", &adef).set("unitconvert", &udef));
                return;
            };
            h.class(&format!("unitconvert-vs-adapt/{unit}"));
            h.distinct(mix(hash_str(&adef), idx));
            for d in [D::F, D::I] {
                for _ in 0..10 {
                    let p = [rng.range(-400.0, 400.0), rng.range(-100.0, 100.0), rng.range(-100.0, 900.0), 2000.0];
                    let (ra, _) = apply1(&ctx, a, d, p);
                    let (ru, _) = apply1(&ctx, u, d, p);
                    h.eval(2);
                    // "exactly": the two use the same constant; division vs multiplication by the
                    // reciprocal in the inverse may differ in the last bit
                    let ok = (0..4).all(|i| (ra[i] - ru[i]).abs() <= crate::geo::ulp(ra[i]));
                    if !ok {
                        v(h, idx, &format!("unitconvert-differs-from-adapt/{unit}/{}", d.name()), J::obj().set("adapt", &adef).set("unitconvert", &udef).set("input", J::coords(&p)).set("adapt_result", J::bits(&ra)).set("unitconvert_result", J::bits(&ru)));
                        return;
                    }
                }
            }
        }
        // Minimal vs Plain for every built-in definition (bit)
        7 => {
            let name = crate::props::c01::NAMES[rng.below(crate::props::c01::NAMES.len())];
            let Some(inst) = catalog::instance(name, rng) else { return };
            let mut plain = Plain::new();
            let (m, p) = (ctx.op(&inst.def), plain.op(&inst.def));
            let (Ok(m), Ok(p)) = (m, p) else {
                v(h, idx, "minimal-plain/one-rejects", J::obj().set("definition", &inst.def));
                return;
            };
            h.class(&format!("minimal-vs-plain/{}", inst.name));
            h.distinct(hash_str(&inst.def));
            for d in [D::F, D::I] {
                for _ in 0..10 {
                    let x = inst.sample(rng);
                    let (a, ca) = apply1(&ctx, m, d, x);
                    let (b, cb) = apply1(&plain, p, d, x);
                    h.eval(2);
                    if !same_bits(&a, &b) || ca != cb {
                        v(h, idx, &format!("minimal-differs-from-plain/{}", inst.name), J::obj().set("definition", &inst.def).set("input", J::bits(&x)).set("minimal", J::bits(&a)).set("plain", J::bits(&b)));
                        return;
                    }
                }
            }
        }
        // series based auxiliary latitudes vs closed forms; series meridian arc vs quadrature
        _ => {
            let (en, ell) = catalog::pick_ellps(rng, true);
            let e = named(&en, &ell);
            h.class("series-vs-closed-form");
            h.distinct(mix(hash_str(&en), idx));
            let cc = e.coefficients_for_conformal_latitude_computations();
            let ca = e.coefficients_for_authalic_latitude_computations();
            for _ in 0..30 {
                let lat = rng.range(-89.0, 89.0) * D2R;
                let pairs = [
                    ("conformal", e.latitude_geographic_to_conformal(lat, &cc), ell.conformal_lat(lat)),
                    ("authalic", e.latitude_geographic_to_authalic(lat, &ca), ell.authalic_lat(lat)),
                    ("geocentric", e.latitude_geographic_to_geocentric(lat), ell.geocentric_lat(lat)),
                    ("reduced", e.latitude_geographic_to_reduced(lat), ell.reduced_lat(lat)),
                    ("isometric", e.latitude_geographic_to_isometric(lat), ell.isometric_lat(lat)),
                ];
                for (k, got, want) in pairs {
                    h.eval(1);
                    let d = (got - want).abs();
                    h.max(&format!("{k} latitude: series vs closed form (rad)"), d, || format!("{en} at {lat}"));
                    let tol = if k == "isometric" { 1.0e-11 * want.abs().max(1.0) } else { 1.0e-11 };
                    if !(d <= tol) {
                        v(h, idx, &format!("series-latitude-differs-from-closed-form/{k}"), J::obj().set("ellps", &en).set("latitude", lat).set("library", got).set("closed_form", want));
                        return;
                    }
                }
                // meridian arc: the series route a·Qn·mu against quadrature
                let cr = e.coefficients_for_rectifying_latitude_computations();
                let mu = e.latitude_geographic_to_rectifying(lat, &cr);
                let arc_series = ell.a * mu;
                let arc_quad = ell.meridian_arc(lat);
                let qn = e.normalized_meridian_arc_unit();
                // the library returns Qn·mu for the rectifying latitude (see C06): accept either
                let d1 = (arc_series - arc_quad).abs();
                let d2 = (arc_series * qn - arc_quad).abs();
                let d = d1.min(d2);
                h.eval(1);
                h.max("meridian arc: series vs quadrature (m per 6.4e6 m of a)", d * 6.4e6 / ell.a, || format!("{en} at {lat}"));
                if !(d <= 1.0e-6 * ell.a / 6.4e6 + 1e-12) {
                    v(h, idx, "series-meridian-arc-differs-from-quadrature", J::obj().set("ellps", &en).set("latitude", lat).set("series_m", arc_series).set("quadrature_m", arc_quad));
                    return;
                }
            }
        }
    }
}
