//! C05 - each map projection has the geometry that defines it: finite-difference
//! Cauchy-Riemann / equal-area identities at generated points, and the defining lines of
//! true scale and origins, all from the forward direction of the real operators.

use crate::catalog::{self, Domain, Inst, D2R};
use crate::harness::{hash_f64s, hash_str, H};
use crate::json::J;
use crate::rng::{mix, Rng};
use crate::util::*;
use geodesy::authoring::*;

const STEP: f64 = 1.0e-4;

pub fn param(def: &str, key: &str) -> Option<f64> {
    def.split_whitespace()
        .find_map(|t| t.strip_prefix(&format!("{key}=")).and_then(|v| v.parse::<f64>().ok()))
}

pub fn flag(def: &str, key: &str) -> bool {
    def.split_whitespace().any(|t| t == key)
}

/// Scaled derivative vectors of the forward projection at (lon, lat):
/// E = d(x,y)/d(lon) / (N cos(lat)),  Nn = d(x,y)/d(lat) / M  (4th order central differences)
pub fn derivatives(ctx: &Minimal, op: OpHandle, inst: &Inst, lon: f64, lat: f64) -> Option<([f64; 2], [f64; 2])> {
    // the step shrinks towards the poles, where the derivatives of every projection here grow
    // like 1/distance and a fixed step would put truncation error above the tolerance
    // (Mercator and the cone are singular at a pole; the other projections are regular there)
    let singular_at_pole = matches!(inst.name, "merc" | "webmerc" | "lcc");
    let h = if singular_at_pole {
        STEP.min((std::f64::consts::FRAC_PI_2 - lat.abs()) / 300.0)
    } else {
        STEP
    };
    if !(h > 0.0) {
        return None;
    }
    let mut pts: Vec<Coor4D> = Vec::with_capacity(8);
    // in longitude every projection here varies on the scale of a radian, and near the poles
    // a small step moves the point by less than the rounding of its coordinates
    let hl = 1.0e-3;
    for k in [-2.0, -1.0, 1.0, 2.0] {
        pts.push(Coor4D([lon + k * hl, lat, 0.0, 0.0]));
    }
    for k in [-2.0, -1.0, 1.0, 2.0] {
        pts.push(Coor4D([lon, lat + k * h, 0.0, 0.0]));
    }
    let n = apply_set(ctx, op, D::F, &mut pts);
    if n != 8 || pts.iter().any(|p| !p.0[0].is_finite() || !p.0[1].is_finite()) {
        return None;
    }
    let d = |i: usize, c: usize, h: f64| (pts[i].0[c] - 8.0 * pts[i + 1].0[c] + 8.0 * pts[i + 2].0[c] - pts[i + 3].0[c]) / (12.0 * h);
    let (ew, ns) = inst.ell.metres_per_rad(lat);
    let e = [d(0, 0, hl) / ew, d(0, 1, hl) / ew];
    let nn = [d(4, 0, h) / ns, d(4, 1, h) / ns];
    Some((e, nn))
}

fn norm(v: &[f64; 2]) -> f64 {
    v[0].hypot(v[1])
}

pub fn run(h: &H) {
    let n = h.budget(3_000, 600_000);
    let npts = if h.quick() { 40 } else { 60 };
    for idx in h.cases(n) {
        let mut rng = h.rng(idx);
        let name = catalog::PROJECTIONS[(idx as usize) % catalog::PROJECTIONS.len()];
        let Some(mut inst) = catalog::instance(name, &mut rng) else {
            continue;
        };
        if name.ends_with("utm") && catalog::size(&inst.ell) < 1.0 {
            // a fixed false easting of 500 km on a unit sphere leaves no digits to difference
            h.class("skipped/utm-on-unit-sphere");
            continue;
        }
        // C05's domain: 60 degrees from the central meridian for tmerc/utm
        if let ("tmerc" | "utm", Domain::GeoBox { half, .. }) = (name, &mut inst.domain) {
            *half = 60.0 * D2R;
        }
        if let ("omerc", Domain::GeoCap { max_ang, .. }) = (name, &mut inst.domain) {
            *max_ang = 45.0 * D2R;
        }
        let desc = format!("{} [{}]", inst.def, inst.aspect);
        h.guard(idx, &desc, || one(h, idx, &inst, &mut rng, npts));
    }
}

fn viol(h: &H, idx: u64, inst: &Inst, what: &str, p: &[f64], extra: J) {
    h.violation(
        idx,
        &format!("C05/{}/{}/{what}", inst.name, inst.aspect),
        extra.set("definition", &inst.def).set("point_lon_lat_rad", J::coords(p)).set("point_deg", J::coords(&[p[0] / D2R, p[1] / D2R])),
    );
}

fn one(h: &H, idx: u64, inst: &Inst, rng: &mut Rng, npts: usize) {
    let mut ctx = Minimal::new();
    let op = match ctx.op(&inst.def) {
        Ok(op) => op,
        Err(e) => {
            h.violation(idx, &format!("C05/{}/instantiation-failed", inst.name), J::obj().set("definition", &inst.def).set("error", format!("{e}")));
            return;
        }
    };
    h.class(&format!("{}/{}", inst.name, inst.aspect));
    if h.want_sample() && idx % 29 == 0 {
        h.sample(J::obj().set("definition", &inst.def).set("points", npts).set("stencil", "4th order central differences, h = 1e-4 rad"));
    }
    let conformal = inst.name != "laea" && inst.name != "webmerc";
    let tol = match inst.name {
        "btmerc" | "butm" => 1.0e-7,
        _ => 1.0e-9,
    };
    let sz = catalog::size(&inst.ell);
    let mut hashes = Vec::new();
    for _ in 0..npts {
        let p = inst.sample(rng);
        let (lon, lat) = (p[0], p[1]);
        if lat.abs() > 89.9 * D2R - 3.0 * STEP {
            continue;
        }
        hashes.push(mix(hash_str(&inst.def), hash_f64s(&[lon, lat])));
        if inst.name == "webmerc" {
            // spherical Mercator of radius a
            let (r, _) = apply1(&ctx, op, D::F, [lon, lat, 0.0, 0.0]);
            let a = inst.ell.a;
            let want = [a * lon, a * lat.tan().asinh()];
            let d = (r[0] - want[0]).abs().max((r[1] - want[1]).abs());
            // 1e-8 m on the ground: a plane distance of 1e-8/cos(lat), which is also how far one
            // ulp of the input latitude moves the northing
            let t = 1.0e-8 * sz / lat.cos() + 8.0 * crate::geo::ulp(want[1].abs().max(want[0].abs()));
            h.max("webmerc vs a*lon, a*asinh(tan(lat)) (m)", d, || format!("{} at {lon} {lat}", inst.def));
            h.eval(1);
            if !(d <= t) {
                viol(h, idx, inst, "not-spherical-mercator", &[lon, lat], J::obj().set("got", J::coords(&r[..2])).set("expected", J::coords(&want)).set("difference_m", d));
                return;
            }
            continue;
        }
        let Some((e, nn)) = derivatives(&ctx, op, inst, lon, lat) else {
            // forward failed inside the domain: that is C10's business; note it
            h.class("stencil-not-finite");
            continue;
        };
        h.eval(8);
        let det = e[0] * nn[1] - e[1] * nn[0];
        if conformal {
            // what the stencil can resolve: its arms are differences of plane coordinates that
            // carry a few ulp of rounding each, over an arm of 1e-3 rad of longitude - metres, not
            // kilometres, within a degree of a pole (negligible elsewhere: 1e-11 at mid latitudes)
            let (ew, ns) = inst.ell.metres_per_rad(lat);
            let arm = (1.0e-3 * ew).min(STEP * ns) * norm(&e).min(norm(&nn));
            let (centre, _) = apply1(&ctx, op, D::F, [lon, lat, 0.0, 0.0]);
            let tol = tol + 64.0 * crate::geo::ulp(centre[0].abs().max(centre[1].abs())) / arm;
            let aniso = (norm(&e) / norm(&nn) - 1.0).abs();
            let skew = (e[0] * nn[0] + e[1] * nn[1]).abs() / (norm(&e) * norm(&nn));
            h.max(&format!("{}: anisotropy / tol", inst.name), aniso / tol, || format!("{} at {lon} {lat}", inst.def));
            h.max(&format!("{}: non-orthogonality / tol", inst.name), skew / tol, || format!("{} at {lon} {lat}", inst.def));
            if !(aniso <= tol) || !(skew <= tol) || !(det > 0.0) {
                viol(
                    h,
                    idx,
                    inst,
                    "not-conformal",
                    &[lon, lat],
                    J::obj()
                        .set("scale_east", norm(&e))
                        .set("scale_north", norm(&nn))
                        .set("anisotropy", aniso)
                        .set("cos_of_angle_between_meridian_and_parallel", skew)
                        .set("orientation_determinant", det)
                        .set("tolerance", tol),
                );
                return;
            }
        } else {
            let t = 5.0e-8;
            h.max("laea: |areal scale - 1| / tol", (det - 1.0).abs() / t, || format!("{} at {lon} {lat}", inst.def));
            if !((det - 1.0).abs() <= t) {
                viol(h, idx, inst, "not-equal-area", &[lon, lat], J::obj().set("areal_scale", det).set("tolerance", t));
                return;
            }
        }
        // the library's own Jacobian agrees with these quantities (2nd order stencil)
        if idx % 4 == 0 {
            if let Ok(j) = Jacobian::new(&ctx, op, [1f64.to_degrees(), 1.0], [false, false], lib_ell(&inst.ell), Coor2D::raw(lon, lat)) {
                let f = j.factors();
                let dh = (f.meridional_scale - norm(&nn)).abs() / norm(&nn);
                let dk = (f.parallel_scale - norm(&e)).abs() / norm(&e);
                let ds = (f.areal_scale - det).abs() / det.abs();
                let worst = dh.max(dk).max(ds);
                h.max("library Jacobian::factors vs harness stencil (relative)", worst, || format!("{} at {lon} {lat}", inst.def));
                h.class("jacobian-compared");
                // the same through the latitude-first input convention (swap[0]): same factors
                if idx % 16 != 0 {
                    // (one case in four of those that look at the Jacobian at all)
                } else if let Ok(op2) = ctx.op(&format!("axisswap order=2,1 | {}", inst.def)) {
                    if let Ok(j2) = Jacobian::new(&ctx, op2, [1f64.to_degrees(), 1.0], [true, false], lib_ell(&inst.ell), Coor2D::raw(lat, lon)) {
                        let f2 = j2.factors();
                        let d2 = ((f2.meridional_scale - f.meridional_scale).abs() / f.meridional_scale.abs())
                            .max((f2.parallel_scale - f.parallel_scale).abs() / f.parallel_scale.abs())
                            .max((f2.areal_scale - f.areal_scale).abs() / f.areal_scale.abs());
                        h.class("jacobian-compared/latitude-first");
                        if !(d2 <= 1.0e-6) && lat.abs() < 85.0 * D2R {
                            viol(
                                h,
                                idx,
                                inst,
                                "library-jacobian-depends-on-the-input-order",
                                &[lon, lat],
                                J::obj()
                                    .set("longitude_first_h_k_s", J::coords(&[f.meridional_scale, f.parallel_scale, f.areal_scale]))
                                    .set("latitude_first_h_k_s", J::coords(&[f2.meridional_scale, f2.parallel_scale, f2.areal_scale])),
                            );
                            return;
                        }
                    }
                }
                if !(worst <= 1.0e-5) && lat.abs() < 85.0 * D2R {
                    viol(
                        h,
                        idx,
                        inst,
                        "library-jacobian-disagrees",
                        &[lon, lat],
                        J::obj()
                            .set("library_h_k_s", J::coords(&[f.meridional_scale, f.parallel_scale, f.areal_scale]))
                            .set("harness_h_k_s", J::coords(&[norm(&nn), norm(&e), det])),
                    );
                    return;
                }
            }
        }
    }
    h.distinct_many(&hashes);
    defining_lines(h, idx, inst, &ctx, op, rng);
}

fn scale_at(ctx: &Minimal, op: OpHandle, inst: &Inst, lon: f64, lat: f64) -> Option<f64> {
    derivatives(ctx, op, inst, lon, lat).map(|(e, nn)| 0.5 * (norm(&e) + norm(&nn)))
}

fn defining_lines(h: &H, idx: u64, inst: &Inst, ctx: &Minimal, op: OpHandle, rng: &mut Rng) {
    let def = &inst.def;
    let k0 = param(def, "k_0").unwrap_or(1.0);
    let x0 = param(def, "x_0").unwrap_or(0.0);
    let y0 = param(def, "y_0").unwrap_or(0.0);
    let lon0 = param(def, "lon_0").unwrap_or(0.0) * D2R;
    let lat0 = param(def, "lat_0").unwrap_or(0.0) * D2R;
    let sz = catalog::size(&inst.ell);
    // the false origin maps to the centre: to 1e-8 m for the rigorous methods, to the
    // micrometre for the millimetre-level ones
    let approx = matches!(inst.name, "omerc" | "btmerc" | "butm");
    let origin_tol = if approx { 1.0e-6 } else { 1.0e-8 } * sz + 4.0 * crate::geo::ulp(x0.abs().max(y0.abs()).max(1.0));
    let check_scale = |what: &str, lon: f64, lat: f64, want: f64| {
        if let Some(k) = scale_at(ctx, op, inst, lon, lat) {
            h.eval(8);
            h.max(&format!("{}: |scale - expected| on defining line", inst.name), (k - want).abs(), || format!("{def} at {lon} {lat}"));
            if !((k - want).abs() <= 1.0e-9 * want.abs().max(1.0)) {
                viol(h, idx, inst, what, &[lon, lat], J::obj().set("scale", k).set("expected", want));
            }
            h.class(&format!("defining-line/{}/{what}", inst.name));
        }
    };
    let check_origin = |what: &str, lon: f64, lat: f64, wx: f64, wy: f64| {
        let (r, _) = apply1(ctx, op, D::F, [lon, lat, 0.0, 0.0]);
        h.eval(1);
        let d = (r[0] - wx).abs().max((r[1] - wy).abs());
        h.max(&format!("{}: origin offset (m)", inst.name), d, || def.to_string());
        if !(d <= origin_tol) {
            viol(h, idx, inst, what, &[lon, lat], J::obj().set("got", J::coords(&r[..2])).set("expected", J::coords(&[wx, wy])));
        }
        h.class(&format!("origin/{}", inst.name));
    };
    match inst.name {
        "tmerc" | "utm" | "btmerc" | "butm" => {
            let (k0, x0, y0, lon0, lat0) = if inst.name.ends_with("utm") {
                let zone = param(def, "zone").unwrap_or(1.0);
                (0.9996, 500000.0, if flag(def, "south") { 1.0e7 } else { 0.0 }, (6.0 * zone - 183.0) * D2R, 0.0)
            } else {
                (k0, x0, y0, lon0, lat0)
            };
            let lat = rng.range(-85.0, 85.0) * D2R;
            if !inst.name.starts_with('b') {
                check_scale("central-meridian-scale", lon0, lat, k0);
            }
            // northing on the central meridian is the scaled meridian arc from lat_0
            let (r, _) = apply1(ctx, op, D::F, [lon0, lat, 0.0, 0.0]);
            let want_n = k0 * (inst.ell.meridian_arc(lat) - inst.ell.meridian_arc(lat0)) + y0;
            let tol = if inst.name.starts_with('b') { 1.0e-3 } else { 1.0e-5 } * sz + 4.0 * crate::geo::ulp(want_n.abs().max(x0.abs()));
            let d = (r[1] - want_n).abs().max((r[0] - x0).abs());
            h.max(&format!("{}: central meridian northing/easting error (m)", inst.name), d, || def.to_string());
            h.eval(1);
            if !(d <= tol) {
                viol(
                    h,
                    idx,
                    inst,
                    "central-meridian-not-scaled-arc",
                    &[lon0, lat],
                    J::obj().set("got", J::coords(&r[..2])).set("expected", J::coords(&[x0, want_n])).set("tolerance", tol),
                );
            }
            check_origin("false-origin", lon0, lat0, x0, y0);
        }
        "merc" => {
            if let Some(ts) = param(def, "lat_ts") {
                check_scale("unit-scale-at-lat_ts", lon0 + 0.3, ts * D2R, 1.0);
                check_scale("unit-scale-at-minus-lat_ts", lon0 - 0.2, -ts * D2R, 1.0);
            } else {
                check_scale("equator-scale", lon0 + 0.4, 0.0, k0);
            }
            check_origin("false-origin", lon0, 0.0, x0, y0);
        }
        "lcc" => {
            let l1 = param(def, "lat_1").unwrap_or(0.0) * D2R;
            check_scale("scale-on-lat_1", lon0 + 0.1, l1, k0);
            if let Some(l2) = param(def, "lat_2") {
                check_scale("scale-on-lat_2", lon0 - 0.1, l2 * D2R, k0);
            }
            // the false origin is at (lon_0, lat_0); lat_0 defaults to lat_1 for one parallel
            let origin_lat = match (param(def, "lat_0"), param(def, "lat_2")) {
                (Some(l), _) => l * D2R,
                (None, None) => l1,
                (None, Some(_)) => 0.0,
            };
            check_origin("false-origin", lon0, origin_lat, x0, y0);
        }
        "somerc" => {
            check_scale("centre-scale", lon0, lat0, k0);
            check_origin("false-origin", lon0, lat0, x0, y0);
        }
        "laea" => {
            check_origin("false-origin", lon0, lat0, x0, y0);
        }
        "omerc" => {
            let lonc = param(def, "lonc").unwrap_or(0.0) * D2R;
            let latc = param(def, "latc").unwrap_or(0.0) * D2R;
            check_scale("centre-scale", lonc, latc, k0);
            if inst.aspect != "variant_a" {
                check_origin("false-origin-at-centre", lonc, latc, x0, y0);
            }
        }
        _ => {}
    }
}
