//! C13 - shared projection parameters follow the common conventions; derived operators
//! (utm, butm, webmerc, lat_ts, one-parallel lcc, noop aliases) match what they derive from.
//! Two routes inside one build: pairs of differently parameterised instances.

use super::c05::{flag, param};
use crate::catalog::{self, Inst, D2R};
use crate::harness::{hash_str, H};
use crate::json::J;
use crate::rng::Rng;
use crate::textgen::gamut_key;
use crate::util::*;
use geodesy::authoring::*;

fn accepts(name: &str, key: &str) -> bool {
    geodesy::verif::gamut(name)
        .map(|g| g.iter().any(|p| gamut_key(p) == key))
        .unwrap_or(false)
}

/// The definition with `key` removed
fn without(def: &str, key: &str) -> String {
    def.split_whitespace()
        .filter(|t| !t.starts_with(&format!("{key}=")))
        .collect::<Vec<_>>()
        .join(" ")
}

fn with(def: &str, key: &str, value: &str) -> String {
    format!("{} {key}={value}", without(def, key))
}

fn points(inst: &Inst, rng: &mut Rng, n: usize) -> Vec<[f64; 4]> {
    (0..n).map(|_| inst.sample(rng)).collect()
}

struct Pair<'a> {
    h: &'a H,
    idx: u64,
    ctx: Minimal,
}

impl Pair<'_> {
    fn op(&mut self, def: &str) -> Option<OpHandle> {
        match self.ctx.op(def) {
            Ok(op) => Some(op),
            Err(e) => {
                self.h.violation(
                    self.idx,
                    "C13/instantiation-failed",
                    J::obj().set("definition", def).set("error", format!("{e}")),
                );
                None
            }
        }
    }
}

pub fn run(h: &H) {
    let n = h.budget(4_000, 400_000);
    for idx in h.cases(n) {
        let mut rng = h.rng(idx);
        let kind = idx % 12;
        let desc = format!("convention pair kind {kind}");
        h.guard(idx, &desc, || case(h, idx, kind, &mut rng));
    }
}

fn sample(h: &H, kind: &str, a: &str, b: &str) {
    if h.want_sample() {
        h.sample(J::obj().set("pair", kind).set("definition_a", a).set("definition_b", b));
    }
}

fn report(h: &H, idx: u64, sig: &str, a: &str, b: &str, p: &[f64; 4], ra: &[f64; 4], rb: &[f64; 4], d: f64, tol: f64) {
    h.violation(
        idx,
        &format!("C13/{sig}"),
        J::obj()
            .set("definition_a", a)
            .set("definition_b", b)
            .set("input", J::bits(p))
            .set("result_a", J::bits(ra))
            .set("result_b_mapped", J::bits(rb))
            .set("difference", d)
            .set("tolerance", tol),
    );
}

fn case(h: &H, idx: u64, kind: u64, rng: &mut Rng) {
    let mut pr = Pair { h, idx, ctx: Minimal::new() };
    let npts = 24;
    let projname = catalog::PROJECTIONS[rng.below(catalog::PROJECTIONS.len())];
    match kind {
        // ---- x_0, y_0 are added to the forward result -----------------------------------
        0 | 1 => {
            if !accepts(projname, "x_0") {
                h.class("not-applicable/x_0");
                return;
            }
            let Some(inst) = catalog::instance(projname, rng) else { return };
            let sz = catalog::size(&inst.ell);
            let base = without(&without(&inst.def, "x_0"), "y_0");
            let x0 = rng.short_decimal(-3.0e6 * sz, 3.0e6 * sz, if sz < 1.0 { 9 } else { 2 });
            let y0 = rng.short_decimal(-3.0e6 * sz, 3.0e6 * sz, if sz < 1.0 { 9 } else { 2 });
            let shifted = format!("{base} x_0={} y_0={}", num(x0), num(y0));
            let (Some(a), Some(b)) = (pr.op(&shifted), pr.op(&base)) else { return };
            h.class(&format!("x_0y_0/{projname}"));
            sample(h, "x_0/y_0", &shifted, &base);
            h.distinct(hash_str(&shifted));
            for p in points(&inst, rng, npts) {
                let (ra, _) = apply1(&pr.ctx, a, D::F, p);
                let (mut rb, _) = apply1(&pr.ctx, b, D::F, p);
                rb[0] += x0;
                rb[1] += y0;
                h.eval(2);
                if any_nan(&ra) && any_nan(&rb) {
                    continue;
                }
                let d = (ra[0] - rb[0]).hypot(ra[1] - rb[1]);
                let tol = 1.0e-8 * sz + 8.0 * crate::geo::ulp(ra[0].abs().max(ra[1].abs()).max(x0.abs()).max(y0.abs()));
                h.max("x_0/y_0: difference (m)", d, || shifted.clone());
                if !(d <= tol) {
                    report(h, idx, &format!("false-origin-not-added/{projname}/fwd"), &shifted, &base, &p, &ra, &rb, d, tol);
                    return;
                }
                // and removed again by the inverse
                let (ia, _) = apply1(&pr.ctx, a, D::I, ra);
                let mut q = ra;
                q[0] -= x0;
                q[1] -= y0;
                let (ib, _) = apply1(&pr.ctx, b, D::I, q);
                if any_nan(&ia) && any_nan(&ib) {
                    continue;
                }
                let g = inst.ell.ground(ia[0], ia[1], ib[0], ib[1]);
                // ground distance, relaxed by the local scale where the plane is magnified
                let tolg = 1.0e-7 * sz + 1.0e-12 * inst.ell.a;
                if !(g <= tolg) {
                    report(h, idx, &format!("false-origin-not-added/{projname}/inv"), &shifted, &base, &ra, &ia, &ib, g, tolg);
                    return;
                }
            }
        }
        // ---- lon_0 in degrees == subtracting it from the input longitude -----------------
        2 | 3 => {
            let key = if projname == "omerc" { "lonc" } else { "lon_0" };
            if !accepts(projname, key) {
                h.class("not-applicable/lon_0");
                return;
            }
            let Some(inst) = catalog::instance(projname, rng) else { return };
            let sz = catalog::size(&inst.ell);
            let mut l = param(&inst.def, key).unwrap_or(0.0);
            let mut ltext = num(l);
            if projname == "merc" && rng.chance(0.5) {
                // (merc has the whole globe for its domain: any central meridian will do)
                let (d0, m, s) = (if rng.chance(0.6) { 0 } else { rng.int(1, 40) }, rng.int(0, 59), rng.int(0, 59));
                let neg = rng.chance(0.6);
                l = (d0 as f64 + m as f64 / 60.0 + s as f64 / 3600.0) * if neg { -1.0 } else { 1.0 };
                ltext = format!("{}{d0}:{m}:{s}", if neg { "-" } else { "" });
            }
            let moved = with(&inst.def, key, &ltext);
            let zero = with(&inst.def, key, "0");
            let (Some(a), Some(b)) = (pr.op(&moved), pr.op(&zero)) else { return };
            h.class(&format!("lon_0/{projname}"));
            sample(h, "lon_0", &moved, &zero);
            h.distinct(hash_str(&moved));
            for p in points(&inst, rng, npts) {
                let (ra, _) = apply1(&pr.ctx, a, D::F, p);
                let mut q = p;
                q[0] -= l * D2R;
                let (rb, _) = apply1(&pr.ctx, b, D::F, q);
                h.eval(2);
                if any_nan(&ra) && any_nan(&rb) {
                    continue;
                }
                let d = (ra[0] - rb[0]).hypot(ra[1] - rb[1]);
                // one ulp of the longitude difference is worth a*ulp(4)/cos... on the plane
                let mag = (ra[0].abs().max(ra[1].abs())).max(inst.ell.a);
                let tol = 1.0e-7 * sz + 64.0 * crate::geo::ulp(mag);
                h.max("lon_0: difference (m)", d, || moved.clone());
                if !(d <= tol) {
                    report(h, idx, &format!("lon_0-not-a-longitude-shift/{projname}"), &moved, &zero, &p, &ra, &rb, d, tol);
                    return;
                }
            }
        }
        // ---- k_0 scales the unshifted plane coordinates linearly --------------------------
        4 => {
            if !accepts(projname, "k_0") || projname.ends_with("utm") {
                h.class("not-applicable/k_0");
                return;
            }
            let Some(inst) = catalog::instance(projname, rng) else { return };
            let base = without(&without(&without(&without(&inst.def, "x_0"), "y_0"), "k_0"), "lat_ts");
            let k = rng.short_decimal(0.5, 2.0, 4);
            let scaled = format!("{base} k_0={}", num(k));
            let unit = format!("{base} k_0=1");
            let (Some(a), Some(b)) = (pr.op(&scaled), pr.op(&unit)) else { return };
            h.class(&format!("k_0/{projname}"));
            sample(h, "k_0", &scaled, &unit);
            h.distinct(hash_str(&scaled));
            for p in points(&inst, rng, npts) {
                let (ra, _) = apply1(&pr.ctx, a, D::F, p);
                let (mut rb, _) = apply1(&pr.ctx, b, D::F, p);
                rb[0] *= k;
                rb[1] *= k;
                h.eval(2);
                if any_nan(&ra) && any_nan(&rb) {
                    continue;
                }
                let d = (ra[0] - rb[0]).hypot(ra[1] - rb[1]);
                // omerc subtracts the distance u_c of the centre along the initial line (of the
                // order of a): the rounding of its plane coordinates is that of numbers of size a
                let floor = if projname == "omerc" { inst.ell.a } else { 1e-3 * inst.ell.a };
                let mag = ra[0].hypot(ra[1]).max(floor);
                // somerc: its asin steps are ill-conditioned far from the centre
                let rel = if projname == "somerc" { 1.0e-10 } else { 1.0e-12 };
                h.max(&format!("k_0: relative difference / {rel:e}"), d / mag / rel, || scaled.clone());
                if !(d <= rel * mag) {
                    report(h, idx, &format!("k_0-not-linear/{projname}"), &scaled, &unit, &p, &ra, &rb, d, rel * mag);
                    return;
                }
            }
        }
        // ---- scaling the semi-major axis scales the unshifted result -----------------------
        5 => {
            let Some(mut inst) = catalog::instance(projname, rng) else { return };
            if projname.ends_with("utm") {
                h.class("not-applicable/axis-scaling");
                return;
            }
            let rf = rng.short_decimal(150.0, 1000.0, 3);
            let a = rng.short_decimal(6.0e6, 6.5e6, 0);
            let c = *rng.pick(&[2.0, 0.5, 4.0, 1.0 / 1024.0]);
            inst.ell = crate::geo::Ell::from_rf(a, rf);
            let base = without(&without(&without(&inst.def, "x_0"), "y_0"), "ellps");
            let one = format!("{base} ellps={},{}", num(a), num(rf));
            let two = format!("{base} ellps={},{}", num(a * c), num(rf));
            let (Some(o1), Some(o2)) = (pr.op(&one), pr.op(&two)) else { return };
            h.class(&format!("axis-scaling/{projname}"));
            h.distinct(hash_str(&two));
            for p in points(&inst, rng, npts) {
                let (r1, _) = apply1(&pr.ctx, o1, D::F, p);
                let (r2, _) = apply1(&pr.ctx, o2, D::F, p);
                h.eval(2);
                if any_nan(&r1) && any_nan(&r2) {
                    continue;
                }
                let m = [r1[0] * c, r1[1] * c, r1[2], r1[3]];
                let d = (m[0] - r2[0]).hypot(m[1] - r2[1]);
                let mag = r2[0].hypot(r2[1]).max(1e-3 * a * c);
                let rel = if projname == "somerc" { 1.0e-10 } else { 1.0e-12 };
                h.max(&format!("axis scaling: relative difference / {rel:e}"), d / mag / rel, || two.clone());
                if !(d <= rel * mag) {
                    report(h, idx, &format!("axis-scaling/{projname}"), &two, &one, &p, &r2, &m, d, rel * mag);
                    return;
                }
            }
        }
        // ---- utm / butm == tmerc / btmerc with the UTM constants: all zones, both hemispheres
        6 | 7 => {
            let bow = kind == 7;
            let (u, t) = if bow { ("butm", "btmerc") } else { ("utm", "tmerc") };
            let (ename, ell) = loop {
                let (n, e) = catalog::pick_ellps(rng, true);
                if catalog::size(&e) == 1.0 {
                    break (n, e);
                }
            };
            let zone = 1 + (idx / 12) % 60;
            for south in [false, true] {
                let udef = format!("{u} zone={zone}{} ellps={ename}", if south { " south" } else { "" });
                let tdef = format!(
                    "{t} lon_0={} k_0=0.9996 x_0=500000 y_0={} ellps={ename}",
                    6 * zone as i64 - 183,
                    if south { "10000000" } else { "0" }
                );
                let (Some(a), Some(b)) = (pr.op(&udef), pr.op(&tdef)) else { return };
                h.class(&format!("{u}/zone-{zone}/{}", if south { "south" } else { "north" }));
                h.distinct(hash_str(&udef));
                let Some(mut inst) = catalog::instance(u, rng) else { return };
                inst.ell = ell;
                if let catalog::Domain::GeoBox { lon0, .. } = &mut inst.domain {
                    *lon0 = (6.0 * zone as f64 - 183.0) * D2R;
                }
                for p in points(&inst, rng, npts) {
                    for d in [D::F, D::I] {
                        let q = if d == D::F { p } else { apply1(&pr.ctx, a, D::F, p).0 };
                        let (ra, _) = apply1(&pr.ctx, a, d, q);
                        let (rb, _) = apply1(&pr.ctx, b, d, q);
                        h.eval(2);
                        let diff = (ra[0] - rb[0]).abs().max((ra[1] - rb[1]).abs());
                        let tol = if d == D::F { 1.0e-9 } else { 1.0e-15 };
                        if !same_bits(&ra, &rb) && !(diff <= tol) {
                            report(h, idx, &format!("{u}-differs-from-{t}/{}", d.name()), &udef, &tdef, &q, &ra, &rb, diff, tol);
                            return;
                        }
                    }
                }
            }
        }
        // ---- merc on a sphere == webmerc on the same sphere ---------------------------------
        8 => {
            let r = rng.short_decimal(6.0e6, 6.5e6, 0);
            let sph = if rng.chance(0.5) { "sphere".to_string() } else { format!("{},1e300", num(r)) };
            let mdef = format!("merc ellps={sph}");
            let wdef = format!("webmerc ellps={sph}");
            let (Some(a), Some(b)) = (pr.op(&mdef), pr.op(&wdef)) else { return };
            h.class("merc-sphere-vs-webmerc");
            h.distinct(hash_str(&format!("{mdef}{idx}")));
            for _ in 0..npts {
                let p = [rng.range(-3.1, 3.1), rng.range(-85.0, 85.0) * D2R, 0.0, 0.0];
                let (ra, _) = apply1(&pr.ctx, a, D::F, p);
                let (rb, _) = apply1(&pr.ctx, b, D::F, p);
                h.eval(2);
                let d = (ra[0] - rb[0]).hypot(ra[1] - rb[1]);
                h.max("merc(sphere) vs webmerc (m)", d, || mdef.clone());
                if !(d <= 1.0e-6) {
                    report(h, idx, "merc-on-sphere-differs-from-webmerc", &mdef, &wdef, &p, &ra, &rb, d, 1e-6);
                    return;
                }
                // and back: the same plane point gives the same place on the sphere
                let (ia, _) = apply1(&pr.ctx, a, D::I, rb);
                let (ib, _) = apply1(&pr.ctx, b, D::I, rb);
                h.eval(2);
                let di = r.max(6.0e6) * (ia[0] - ib[0]).hypot(ia[1] - ib[1]);
                h.max("merc(sphere) vs webmerc, inverse (m)", di, || mdef.clone());
                if !(di <= 1.0e-6) {
                    report(h, idx, "merc-on-sphere-differs-from-webmerc/inv", &mdef, &wdef, &rb, &ia, &ib, di, 1e-6);
                    return;
                }
            }
        }
        // ---- lat_ts == the corresponding k_0 ---------------------------------------------------
        9 => {
            let (ename, ell) = catalog::pick_ellps(rng, true);
            let ts = rng.short_decimal(-80.0, 80.0, 3);
            let (s, c) = (ts * D2R).sin_cos();
            let k = c / (1.0 - ell.es() * s * s).sqrt();
            let a = format!("merc ellps={ename} lat_ts={}", num(ts));
            let b = format!("merc ellps={ename} k_0={}", num(k));
            let (Some(oa), Some(ob)) = (pr.op(&a), pr.op(&b)) else { return };
            h.class("lat_ts-vs-k_0");
            h.distinct(hash_str(&a));
            for _ in 0..npts {
                let p = [rng.range(-3.1, 3.1), rng.range(-89.0, 89.0) * D2R, 0.0, 0.0];
                let (ra, _) = apply1(&pr.ctx, oa, D::F, p);
                let (rb, _) = apply1(&pr.ctx, ob, D::F, p);
                h.eval(2);
                let d = (ra[0] - rb[0]).hypot(ra[1] - rb[1]);
                let mag = ra[0].hypot(ra[1]).max(1e-3 * ell.a);
                h.max("lat_ts vs k_0: relative difference / 1e-12", d / mag / 1e-12, || a.clone());
                if !(d <= 1.0e-12 * mag) {
                    report(h, idx, "lat_ts-differs-from-k_0", &a, &b, &p, &ra, &rb, d, 1e-12 * mag);
                    return;
                }
            }
        }
        // ---- one-parallel lcc == two-parallel lcc with equal parallels ----------------------------
        10 => {
            let Some(inst) = catalog::instance("lcc", rng) else { return };
            if param(&inst.def, "lat_2").is_some() {
                h.class("lcc-1sp-vs-2sp/skipped-2sp-instance");
                return;
            }
            let l1 = param(&inst.def, "lat_1").unwrap_or(30.0);
            let two = format!("{} lat_2={}", inst.def, num(l1));
            let (Some(a), Some(b)) = (pr.op(&inst.def), pr.op(&two)) else { return };
            h.class("lcc-1sp-vs-2sp");
            h.distinct(hash_str(&two));
            let sz = catalog::size(&inst.ell);
            for p in points(&inst, rng, npts) {
                for d in [D::F, D::I] {
                    let q = if d == D::F { p } else { apply1(&pr.ctx, a, D::F, p).0 };
                    let (ra, _) = apply1(&pr.ctx, a, d, q);
                    let (rb, _) = apply1(&pr.ctx, b, d, q);
                    h.eval(2);
                    if any_nan(&ra) && any_nan(&rb) {
                        continue;
                    }
                    let diff = (ra[0] - rb[0]).hypot(ra[1] - rb[1]);
                    let tol = if d == D::F { 1.0e-9 * sz + 8.0 * crate::geo::ulp(ra[0].hypot(ra[1])) } else { 1.0e-15 };
                    if !(diff <= tol) {
                        report(h, idx, &format!("lcc-1sp-differs-from-equal-2sp/{}", d.name()), &inst.def, &two, &q, &ra, &rb, diff, tol);
                        return;
                    }
                }
            }
        }
        // ---- noop aliases leave all data untouched ---------------------------------------------------
        _ => {
            for name in ["noop", "longlat", "latlon", "latlong", "lonlat"] {
                let Some(op) = pr.op(name) else { return };
                h.class(&format!("alias/{name}"));
                for d in [D::F, D::I] {
                    let mut set: Vec<Coor4D> = (0..5)
                        .map(|_| Coor4D([rng.hostile_f64(), rng.hostile_f64(), rng.hostile_f64(), rng.hostile_f64()]))
                        .collect();
                    let before = set.clone();
                    let n = apply_set(&pr.ctx, op, d, &mut set);
                    h.eval(5);
                    h.distinct(crate::rng::mix(idx, hash_str(name)));
                    let same = (0..5).all(|i| set[i].0.iter().zip(before[i].0.iter()).all(|(a, b)| a.to_bits() == b.to_bits()));
                    if !same || n != 5 {
                        h.violation(
                            idx,
                            &format!("C13/alias-changes-data/{name}/{}", d.name()),
                            J::obj().set("before", J::Arr(before.iter().map(|c| J::bits(&c.0)).collect())).set("after", J::Arr(set.iter().map(|c| J::bits(&c.0)).collect())).set("count", n),
                        );
                        return;
                    }
                }
            }
            let _ = flag;
        }
    }
}
