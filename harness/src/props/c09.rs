//! C09 - no definition string and no coordinate value can make the library panic or hang.
//! Crash/hang monitor (WAL + catch_unwind + CPU-time watchdog) over grammar-generated and
//! mutated definitions, hostile coordinates, and direct calls of the public helper APIs.

use crate::catalog;
use crate::harness::{hash_str, H};
use crate::json::J;
use crate::rng::Rng;
use crate::textgen::{self, gamut_key};
use crate::util::*;
use geodesy::authoring::*;

pub fn op_table() -> Vec<(&'static str, Vec<OpParameter>)> {
    geodesy::verif::builtin_operator_names()
        .into_iter()
        .map(|n| (n, geodesy::verif::gamut(n).unwrap_or_default()))
        .collect()
}

fn hostile_set(rng: &mut Rng) -> Vec<Coor4D> {
    let n = rng.below(4);
    (0..n)
        .map(|_| {
            if rng.chance(0.25) {
                // on and around the borders and half-cell margins of the shipped test grids
                // (54-58 N, 8-16 E, one degree cells), as radians, degrees or cartesian metres
                let lat = *rng.pick(&[53.5, 54.0, 58.0, 58.5, 56.0]) + rng.range(-0.6, 0.6) * if rng.chance(0.3) { 0.0 } else { 1.0 };
                let lon = *rng.pick(&[7.5, 8.0, 16.0, 16.5, 12.0]) + rng.range(-0.6, 0.6) * if rng.chance(0.3) { 0.0 } else { 1.0 };
                return match rng.below(3) {
                    0 => Coor4D([lon.to_radians(), lat.to_radians(), 10.0, 2020.0]),
                    1 => Coor4D([lat, lon, 10.0, 2020.0]),
                    _ => {
                        let c = Ellipsoid::default().cartesian(&Coor4D([lon.to_radians(), lat.to_radians(), 10.0, 0.0]));
                        Coor4D([c[0], c[1], c[2], 2020.0])
                    }
                };
            }
            Coor4D([
                rng.hostile_f64(),
                rng.hostile_f64(),
                rng.hostile_f64(),
                rng.hostile_f64(),
            ])
        })
        .collect()
}

/// Instantiate and exercise: apply in both directions, introspect
pub fn exercise<C: Context>(h: &H, ctx: &mut C, def: &str, rng: &mut Rng, label: &str) {
    match ctx.op(def) {
        Ok(op) => {
            h.class(&format!("{label}/instantiated"));
            for round in 0..3 {
                let mut set = hostile_set(rng);
                let d = if round % 2 == 0 { D::F } else { D::I };
                let n = set.len();
                let c = apply_set(ctx, op, d, &mut set);
                if c != usize::MAX && c > n {
                    // belongs to C10, but cheap to see here
                    h.class("count-exceeds-set-size");
                }
                h.eval(1);
            }
            if let Ok(steps) = ctx.steps(op) {
                let k = steps.len();
                for i in 0..=k {
                    let _ = ctx.params(op, i);
                }
            }
        }
        Err(e) => {
            h.class(&format!("{label}/rejected/{}", err_kind(&e)));
            h.eval(1);
        }
    }
}

fn note_coverage(h: &H, def: &str, ops: &[(&'static str, Vec<OpParameter>)]) {
    for (name, gamut) in ops {
        if !def.contains(name) {
            continue;
        }
        h.class(&format!("name/{name}"));
        for p in gamut {
            let k = gamut_key(p);
            if def.contains(k) {
                h.class(&format!("key/{name}/{k}"));
            }
        }
    }
}

fn direct_api(h: &H, rng: &mut Rng, which: usize) -> String {
    let s = match rng.below(3) {
        0 => textgen::hostile_value(rng, "ellps", "text"),
        1 => textgen::hostile_value(rng, "x", "real"),
        _ => {
            let ops = op_table();
            textgen::hostile_definition(rng, &ops)
        }
    };
    let v = [
        rng.hostile_f64(),
        rng.hostile_f64(),
        rng.hostile_f64(),
        rng.hostile_f64(),
    ];
    let desc;
    match which % 12 {
        0 => {
            desc = format!("Ellipsoid::named({s:?})");
            h.set_desc(&desc);
            let _ = Ellipsoid::named(&s);
            let _ = TriaxialEllipsoid::named(&s);
        }
        1 => {
            desc = format!("angular::parse_sexagesimal({s:?})");
            h.set_desc(&desc);
            let _ = angular::parse_sexagesimal(&s);
        }
        2 => {
            let d = rng.int(-400, 400) as i32;
            let m = rng.below(70) as u16;
            desc = format!("angular::dms_to_dd/dm_to_dd({d}, {m}, {:?})", v[0]);
            h.set_desc(&desc);
            let _ = angular::dms_to_dd(d, m, v[0]);
            let _ = angular::dm_to_dd(d, v[0]);
        }
        3 => {
            desc = format!("angular::iso/normalize({:?})", v[0]);
            h.set_desc(&desc);
            let _ = angular::iso_dm_to_dd(v[0]);
            let _ = angular::dd_to_iso_dm(v[0]);
            let _ = angular::iso_dms_to_dd(v[0]);
            let _ = angular::dd_to_iso_dms(v[0]);
            let _ = angular::normalize_symmetric(v[0]);
            let _ = angular::normalize_positive(v[0]);
        }
        4 => {
            desc = format!("Tokenize on {s:?}");
            h.set_desc(&desc);
            let _ = s.normalize();
            let _ = s.split_into_steps();
            let _ = s.is_pipeline();
            let _ = s.is_resource_name();
            let _ = s.operator_name();
        }
        5 => {
            desc = format!("split_into_parameters({s:?})");
            h.set_desc(&desc);
            let _ = s.split_into_parameters();
        }
        6 => {
            desc = format!("parse_proj({s:?})");
            h.set_desc(&desc);
            let _ = parse_proj(&s);
            let p = format!("proj={} {}", s, s);
            let _ = parse_proj(&p);
        }
        7 | 8 => {
            // ellipsoid methods on valid and hostile ellipsoids
            let e = if rng.chance(0.5) {
                Ellipsoid::new(rng.hostile_f64(), rng.hostile_f64())
            } else {
                let (_, ell) = catalog::pick_ellps(rng, true);
                Ellipsoid::new(ell.a, ell.f)
            };
            desc = format!("ellipsoid methods a={:?} f={:?} args={}", e.a(), e.f(), fmt4(&v));
            h.set_desc(&desc);
            let c = Coor4D(v);
            let c2 = Coor4D([v[2], v[3], v[0], v[1]]);
            let _ = e.cartesian(&c);
            let _ = e.geographic(&c);
            let _ = e.geodesic_fwd(&c, v[2], v[3]);
            let _ = e.geodesic_inv(&c, &c2);
            let _ = e.distance(&c, &c2);
            let _ = e.meridian_latitude_to_distance(v[0]);
            let _ = e.meridian_distance_to_latitude(v[1]);
            let _ = e.prime_vertical_radius_of_curvature(v[0]);
            let _ = e.meridian_radius_of_curvature(v[0]);
            let _ = e.polar_radius_of_curvature();
            let _ = e.latitude_geographic_to_geocentric(v[0]);
            let _ = e.latitude_geocentric_to_geographic(v[0]);
            let _ = e.latitude_geographic_to_reduced(v[0]);
            let _ = e.latitude_reduced_to_geographic(v[0]);
            let _ = e.latitude_geographic_to_isometric(v[0]);
            let _ = e.latitude_isometric_to_geographic(v[0]);
            let k = e.coefficients_for_rectifying_latitude_computations();
            let _ = e.latitude_geographic_to_rectifying(v[0], &k);
            let _ = e.latitude_rectifying_to_geographic(v[0], &k);
            let k = e.coefficients_for_conformal_latitude_computations();
            let _ = e.latitude_geographic_to_conformal(v[0], &k);
            let _ = e.latitude_conformal_to_geographic(v[0], &k);
            let k = e.coefficients_for_authalic_latitude_computations();
            let _ = e.latitude_geographic_to_authalic(v[0], &k);
            let _ = e.latitude_authalic_to_geographic(v[0], &k);
            let _ = e.normalized_meridian_arc_unit();
            let _ = e.rectifying_radius();
            let _ = e.rectifying_radius_bowring();
            let _ = e.meridian_quadrant();
            let _ = e.somigliana_gravity(v[0], None, None);
            let _ = e.somigliana_gravity(v[0], Some(v[1]), Some(v[2]));
            let _ = e.cassinis_gravity_1930(v[0]);
            let _ = e.jeffreys_gravity_1948(v[0]);
            let _ = e.grs67_gravity(v[0]);
            let _ = e.grs80_gravity(v[0]);
            let _ = e.cassinis_height_correction(v[0], v[1]);
            let _ = e.grs67_height_correction(v[0], v[1]);
            let _ = e.welmec(v[0], v[1]);
            let _ = e.second_flattening();
            let _ = e.third_flattening();
            let _ = e.aspect_ratio();
            let _ = e.linear_eccentricity();
            let _ = e.eccentricity();
            let _ = e.second_eccentricity();
            let _ = e.second_eccentricity_squared();
        }
        9 => {
            desc = format!("Coor4D constructors/containers {}", fmt4(&v));
            h.set_desc(&desc);
            let _ = Coor4D::geo(v[0], v[1], v[2], v[3]);
            let _ = Coor4D::gis(v[0], v[1], v[2], v[3]);
            let _ = Coor4D::arcsec(v[0], v[1], v[2], v[3]);
            let _ = Coor4D::iso_dm(v[0], v[1], v[2], v[3]);
            let _ = Coor4D::iso_dms(v[0], v[1], v[2], v[3]);
            let c = Coor4D(v);
            let _ = c.to_degrees();
            let _ = c.to_radians();
            let _ = c.to_arcsec();
            let _ = c.to_geo();
            for n in 0..7 {
                let _ = c.nth(n);
            }
            let mut d = Coor2D::raw(v[0], v[1]);
            for n in 0..7 {
                d.set_nth(n, v[2]);
                let _ = d.nth(n);
            }
        }
        10 => {
            desc = format!("TriaxialEllipsoid::named/new {s:?}");
            h.set_desc(&desc);
            let _ = TriaxialEllipsoid::named(&s);
            let t = TriaxialEllipsoid::new(v[0], v[1], v[2]);
            let _ = t.semimedian_axis();
            let _ = t.eccentricity_squared();
        }
        _ => {
            desc = format!("Jacobian at {}", fmt4(&v));
            h.set_desc(&desc);
            let mut ctx = Minimal::new();
            if let Ok(op) = ctx.op("utm zone=32") {
                let e = Ellipsoid::default();
                let c = Coor2D::raw(v[0], v[1]);
                let ang = [true, false];
                if let Ok(j) = Jacobian::new(&ctx, op, [1.0, 1.0], ang, e, c) {
                    let _ = j.factors();
                }
            }
        }
    }
    h.eval(1);
    desc
}

pub fn run(h: &H) {
    let ops = op_table();
    for (n, g) in &ops {
        if g.is_empty() && !["noop", "longlat", "latlon", "latlong", "lonlat"].contains(n) {
            h.uncovered(&format!("operator '{n}' has no gamut row in the hook"));
        }
    }
    let n = h.budget(48_000, 6_400_000);
    let mut valid: Vec<String> = Vec::new();
    {
        let mut r = h.common_rng("C09-valid");
        for _ in 0..60 {
            for name in crate::props::c01::NAMES {
                if let Some(i) = catalog::instance(name, &mut r) {
                    valid.push(i.def);
                }
            }
        }
        valid.push("gridshift grids=test.datum".into());
        valid.push("gridshift grids=5458_with_subgrid.gsb".into());
        valid.push("deformation grids=test.deformation dt=1".into());
        valid.push("push v_1 v_2 | addone | pop v_1 v_2".into());
        valid.push("stack push=1,2 | stack roll=2,1 | stack pop=1,2".into());
        valid.push("stack push=1,2 | stack swap | stack flip=1 | stack unroll=2,1 | stack pop=1,2".into());
        valid.push("geo:in | utm zone=32 | neu:out".into());
        valid.push("curvature mean ellps=GRS80".into());
        valid.push("gravity grs80".into());
        valid.push("deflection grids=test.geoid".into());
    }
    for idx in h.cases(n) {
        let mut rng = h.rng(idx);
        let mode = idx % 10;
        match mode {
            0..=3 => {
                let def = textgen::hostile_definition(&mut rng, &ops);
                note_coverage(h, &def, &ops);
                h.distinct(hash_str(&def));
                if h.want_sample() && idx % 97 == 0 {
                    h.sample(J::obj().set("mode", "grammar").set("definition", &def));
                }
                if mode == 3 {
                    h.guard(idx, &format!("Plain::op({def:?})"), || {
                        let mut ctx = Plain::new();
                        exercise(h, &mut ctx, &def, &mut rng, "grammar-plain");
                    });
                } else {
                    h.guard(idx, &format!("Minimal::op({def:?})"), || {
                        let mut ctx = Minimal::new();
                        exercise(h, &mut ctx, &def, &mut rng, "grammar-minimal");
                    });
                }
            }
            4 | 5 => {
                let base = rng.pick(&valid).clone();
                let def = textgen::mutate(&mut rng, &base, &valid);
                note_coverage(h, &def, &ops);
                h.distinct(hash_str(&def));
                if h.want_sample() && idx % 89 == 4 {
                    h.sample(J::obj().set("mode", "mutation").set("from", &base).set("definition", &def));
                }
                h.guard(idx, &format!("Plain::op({def:?})"), || {
                    let mut ctx = Plain::new();
                    exercise(h, &mut ctx, &def, &mut rng, "mutation");
                });
            }
            6 => {
                // macros, possibly cyclic, with hostile bodies
                let names = ["m:a", "m:b", "m:c"];
                let mut res = Vec::new();
                for nm in names {
                    let body = match rng.below(4) {
                        0 => textgen::hostile_definition(&mut rng, &ops),
                        1 => format!("{} | {}", rng.pick(&names), rng.pick(&valid)),
                        2 => rng.pick(&names).to_string(),
                        _ => rng.pick(&valid).clone(),
                    };
                    res.push((nm, body));
                }
                let call = format!(
                    "{} {}",
                    rng.pick(&names),
                    textgen::hostile_step(&mut rng, &ops).replace('|', " ")
                );
                let desc = format!("macros {res:?} call {call:?}");
                h.distinct(hash_str(&desc));
                h.guard(idx, &desc, || {
                    let mut ctx = Minimal::new();
                    for (k, v) in &res {
                        ctx.register_resource(k, v);
                    }
                    exercise(h, &mut ctx, &call, &mut rng, "macro");
                });
            }
            7 => {
                // PROJ flavoured text
                let base = rng.pick(&valid).clone();
                let mut parts: Vec<String> = base.split_whitespace().map(|x| x.to_string()).collect();
                if !parts.is_empty() {
                    parts[0] = format!("proj={}", parts[0]);
                }
                let mut def = parts
                    .iter()
                    .map(|p| if rng.chance(0.5) { format!("+{p}") } else { p.clone() })
                    .collect::<Vec<_>>()
                    .join(" ");
                if rng.chance(0.5) {
                    def = format!("proj=pipeline {} step {} step {}", rng.pick(&["", "inv", "ellps=intl"]), def, def);
                }
                if rng.chance(0.5) {
                    def = textgen::mutate(&mut rng, &def, &valid);
                }
                h.distinct(hash_str(&def));
                h.guard(idx, &format!("Plain::op({def:?})"), || {
                    let mut ctx = Plain::new();
                    exercise(h, &mut ctx, &def, &mut rng, "proj");
                });
            }
            8 if (idx / 10) % 3 == 0 => {
                // stack programs: enough pushes for the depth checks to pass, then sub-commands
                // with integer arguments of any size and sign, run in both directions
                let ints = ["0", "1", "2", "3", "4", "5", "-1", "-2", "-3", "-5", "7", "-7", "1e18", "-1e18", "9.3e18", "-9.3e18", "1e19", "1e300", "-1e300", "-1e299", "4294967296", "2147483648", "-2147483649", "2.5", "nan", "inf"];
                let mut steps: Vec<String> = Vec::new();
                for _ in 0..1 + rng.below(4) {
                    let k = 1 + rng.below(4);
                    let args: Vec<String> = (0..k).map(|_| (1 + rng.below(4)).to_string()).collect();
                    steps.push(format!("stack push={}", args.join(",")));
                }
                for _ in 0..1 + rng.below(3) {
                    let (a, b) = (rng.pick(&ints).to_string(), rng.pick(&ints).to_string());
                    steps.push(match rng.below(9) {
                        0 | 1 => format!("stack roll={a},{b}"),
                        2 | 3 => format!("stack unroll={a},{b}"),
                        4 => "stack swap".to_string(),
                        5 => format!("stack flip={}", rng.pick(&["1", "1,2", "4,3,2,1", "1,1", "0", "5"])),
                        6 => format!("stack pop={}", rng.pick(&["1", "1,2", "4,3,2,1", "1,1,1,1,1,1,1,1,1"])),
                        7 => "stack drop".to_string(),
                        _ => format!("stack roll={a}"),
                    });
                }
                if rng.chance(0.5) {
                    steps.push("stack pop=1,2".into());
                }
                let def = steps.join(" | ");
                h.distinct(hash_str(&def));
                h.guard(idx, &format!("stack program {def:?}"), || {
                    let mut ctx = Minimal::new();
                    exercise(h, &mut ctx, &def, &mut rng, "stack-program");
                });
            }
            8 => {
                // valid operators, hostile coordinates only
                let def = rng.pick(&valid).clone();
                h.distinct(crate::rng::mix(hash_str(&def), idx));
                h.guard(idx, &format!("hostile coordinates through {def:?}"), || {
                    let mut ctx = Plain::new();
                    for _ in 0..4 {
                        exercise(h, &mut ctx, &def, &mut rng, "valid-op");
                    }
                });
            }
            _ => {
                let which = (idx / 10) as usize;
                let mut r2 = rng.clone();
                // the description is only known after generation: generate twice, same stream
                let mut probe = h.rng(idx);
                let _ = &mut probe;
                let desc = format!("direct API call #{}", which % 12);
                h.distinct(crate::rng::mix(idx, which as u64));
                h.guard(idx, &desc, || {
                    let d = direct_api(h, &mut r2, which);
                    h.class(&format!("api/{}", which % 12));
                    if h.want_sample() && which % 12 == 1 {
                        h.sample(J::obj().set("mode", "api").set("call", d));
                    }
                });
            }
        }
    }
}
