//! C10 - failures are visible: honest counts, NaN for every uncounted tuple, untouched axes
//! kept, NaN propagated to every dependent element, pipelines report the minimum, one-way
//! operators report zero and leave the data alone.  Invariant monitor at the API boundary.

use crate::catalog::{self, Inst, D2R};
use crate::harness::{hash_f64s, hash_str, H};
use crate::json::J;
use crate::rng::{mix, Rng};
use crate::util::*;
use geodesy::authoring::*;
use geodesy::verif::Event;

/// Grid based and other operators outside the catalogue: (definition, in-coverage sampler kind,
/// elements the operator works on)
const GRID_OPS: [(&str, &str, [bool; 4]); 10] = [
    ("gridshift grids=test.datum", "geo", [true, true, false, false]),
    ("gridshift grids=test.geoid", "geo", [false, false, true, false]),
    ("gridshift grids=5458.gsb", "geo", [true, true, false, false]),
    ("gridshift grids=5458_with_subgrid.gsb", "geo", [true, true, false, false]),
    ("gridshift grids=test_subset.datum,test.datum", "geo", [true, true, false, false]),
    ("gridshift grids=test.datum,@null", "geo-null", [true, true, false, false]),
    ("gridshift grids=@missing.datum,test.geoid,@null", "geo-null", [false, false, true, false]),
    ("deformation grids=test.deformation dt=10", "cart", [true, true, true, false]),
    ("deformation grids=test.deformation t_epoch=2000", "cart", [true, true, true, false]),
    ("deflection grids=test.geoid", "deflection", [true, true, false, false]),
];

const ONE_WAY: [&str; 5] = [
    "curvature mean",
    "curvature azimuthal ellps=intl",
    "gravity grs80",
    "gravity welmec zero-height",
    "deflection grids=test.geoid",
];

fn v(h: &H, idx: u64, sig: &str, d: J) {
    h.violation(idx, &format!("C10/{sig}"), d);
}

pub fn run(h: &H) {
    let n = h.budget(6_000, 600_000);
    for idx in h.cases(n) {
        let mut rng = h.rng(idx);
        match idx % 8 {
            0..=3 => {
                let name = crate::props::c01::NAMES[(idx as usize / 8) % crate::props::c01::NAMES.len()];
                let Some(inst) = catalog::instance(name, &mut rng) else { continue };
                h.guard(idx, &inst.def.clone(), || catalogue_op(h, idx, &inst, &mut rng));
            }
            4 | 5 => {
                let (def, kind, touches) = GRID_OPS[(idx as usize / 8) % GRID_OPS.len()];
                h.guard(idx, def, || grid_op(h, idx, def, kind, &touches, &mut rng));
            }
            6 if (idx / 8) % 4 == 3 => {
                h.guard(idx, "geodesic inverse on nearly antipodal pairs", || antipodal(h, idx, &mut rng));
            }
            6 if (idx / 8) % 4 == 1 => {
                h.guard(idx, "coverage of generated grids with oblong cells", || generated_coverage(h, idx, &mut rng));
            }
            6 => {
                let def = ONE_WAY[(idx as usize / 8) % ONE_WAY.len()];
                h.guard(idx, def, || one_way(h, idx, def, &mut rng));
            }
            _ => {
                h.guard(idx, "pipelines with failing steps", || pipelines(h, idx, &mut rng));
            }
        }
    }
}

fn hostile_tuple(rng: &mut Rng, base: &[f64; 4]) -> [f64; 4] {
    let mut p = *base;
    match rng.below(6) {
        0 => {
            p[0] = rng.logmag(3.0, 1e9);
        }
        1 => {
            p[1] = rng.logmag(1.6, 1e9);
        }
        2 => {
            p[0] = rng.hostile_f64();
            p[1] = rng.hostile_f64();
        }
        3 => {
            p = [rng.hostile_f64(), rng.hostile_f64(), rng.hostile_f64(), rng.hostile_f64()];
        }
        4 => {
            p[0] += std::f64::consts::PI;
        }
        _ => {
            p[2] = rng.logmag(1.0, 1e12);
        }
    }
    p
}

/// The basic per-tuple predicates. `worked` = elements the operator works on.
#[allow(clippy::too_many_arguments)]
fn predicates<C: Context>(h: &H, idx: u64, ctx: &C, op: OpHandle, d: D, def: &str, name: &str, x: &[f64; 4], worked: &[bool; 4], in_domain: bool) -> Option<([f64; 4], usize)> {
    let (y, c) = apply1(ctx, op, d, *x);
    h.eval(1);
    let detail = |what: &str| {
        J::obj()
            .set("what", what)
            .set("definition", def)
            .set("direction", d.name())
            .set("input", J::bits(x))
            .set("output", J::bits(&y))
            .set("count", c)
    };
    if c > 1 {
        v(h, idx, &format!("count-exceeds-set-size/{name}/{}", d.name()), detail("more successes than tuples"));
        return None;
    }
    if c == 0 {
        h.class(&format!("uncounted/{name}/{}", d.name()));
        if !any_nan(&y) {
            let unchanged = same_bits(x, &y);
            v(
                h,
                idx,
                &format!("uncounted-but-looks-valid/{name}/{}/{}", d.name(), if unchanged { "unchanged" } else { "transformed" }),
                detail("a tuple that is not counted must carry NaN"),
            );
            return None;
        }
    }
    if in_domain && all_finite(x) {
        let bad_out = (0..4).any(|i| worked[i] && !y[i].is_finite());
        if c != 1 || bad_out {
            v(
                h,
                idx,
                &format!("in-domain-tuple-failed/{name}/{}/{}", d.name(), if c != 1 { "not-counted" } else { "not-finite" }),
                detail("a tuple inside the documented domain must be transformed and counted"),
            );
            return None;
        }
    }
    if c == 1 {
        for i in 0..4 {
            if !worked[i] && canon(x[i]) != canon(y[i]) {
                v(h, idx, &format!("untouched-element-changed/{name}/{}/element-{i}", d.name()), detail("an element the operator does not work on must come back bit-identical"));
                return None;
            }
        }
    }
    Some((y, c))
}

/// NaN in input element i must give NaN in every output element that depends on i, where
/// "depends" is observed on the operator itself: perturbing element i changes output j
fn nan_propagation<C: Context>(h: &H, idx: u64, ctx: &C, op: OpHandle, d: D, def: &str, name: &str, x: &[f64; 4], rng: &mut Rng) {
    let (y, c) = apply1(ctx, op, d, *x);
    if c != 1 || !all_finite(&y) {
        return;
    }
    let mut dep = [[false; 4]; 4];
    for i in 0..4 {
        for scale in [1.0e-3, 0.37] {
            let mut p = *x;
            let step = if p[i].abs() > 100.0 { p[i].abs() * scale * 0.1 } else { scale };
            p[i] += step;
            let (q, cq) = apply1(ctx, op, d, p);
            if cq == 1 && all_finite(&q) {
                for j in 0..4 {
                    if q[j] != y[j] {
                        dep[i][j] = true;
                    }
                }
            }
        }
    }
    // one element, and a random subset of elements
    let mut masks: Vec<u8> = vec![1, 2, 4, 8];
    masks.push(1 + rng.below(15) as u8);
    for mask in masks {
        let mut p = *x;
        for i in 0..4 {
            if mask & (1 << i) != 0 {
                p[i] = f64::NAN;
            }
        }
        let (q, cq) = apply1(ctx, op, d, p);
        h.eval(1);
        if cq > 1 {
            v(h, idx, &format!("count-exceeds-set-size/{name}/{}", d.name()), J::obj().set("definition", def).set("input", J::bits(&p)).set("count", cq));
            return;
        }
        // the same tuple as the second member of a set, behind the finite one: the outcome for a
        // failed tuple must not be borrowed from its predecessor
        {
            let mut set = vec![Coor4D(*x), Coor4D(p)];
            let cs = apply_set(ctx, op, d, &mut set);
            h.eval(1);
            let mut rev = vec![Coor4D(p), Coor4D(*x)];
            let cr = apply_set(ctx, op, d, &mut rev);
            h.eval(1);
            let same = (0..4).all(|k| canon(set[1][k]) == canon(q[k]) && canon(rev[0][k]) == canon(q[k]) && canon(rev[1][k]) == canon(y[k]));
            if !same || cs != 1 + cq || cr != 1 + cq {
                v(
                    h,
                    idx,
                    &format!("nan-tuple-depends-on-its-predecessor/{name}/{}", d.name()),
                    J::obj()
                        .set("what", "a tuple with NaN elements gives another result (or count) behind a finite tuple than alone")
                        .set("definition", def)
                        .set("direction", d.name())
                        .set("finite_tuple", J::bits(x))
                        .set("nan_tuple", J::bits(&p))
                        .set("alone", J::bits(&q))
                        .set("as_second_member", J::bits(&set[1].0))
                        .set("count_alone", cq)
                        .set("count_of_the_pair", cs),
                );
                return;
            }
        }
        for i in 0..4 {
            if mask & (1 << i) == 0 {
                continue;
            }
            for j in 0..4 {
                if dep[i][j] && !q[j].is_nan() {
                    v(
                        h,
                        idx,
                        &format!("nan-not-propagated/{name}/{}/in-{i}-out-{j}", d.name()),
                        J::obj()
                            .set("what", "output element depends on an input element that is NaN, yet it is not NaN")
                            .set("definition", def)
                            .set("direction", d.name())
                            .set("input", J::bits(&p))
                            .set("output", J::bits(&q))
                            .set("finite_reference_input", J::bits(x))
                            .set("finite_reference_output", J::bits(&y)),
                    );
                    return;
                }
            }
        }
        if cq == 0 && !any_nan(&q) {
            v(h, idx, &format!("uncounted-but-looks-valid/{name}/{}/nan-input", d.name()), J::obj().set("definition", def).set("input", J::bits(&p)).set("output", J::bits(&q)));
            return;
        }
    }
    h.class(&format!("nan-propagation/{name}/{}", d.name()));
}

fn catalogue_op(h: &H, idx: u64, inst: &Inst, rng: &mut Rng) {
    let mut ctx = Minimal::new();
    let Ok(op) = ctx.op(&inst.def) else {
        v(h, idx, "instantiation-failed", J::obj().set("definition", &inst.def));
        return;
    };
    h.distinct(hash_str(&inst.def));
    if h.want_sample() && idx % 211 == 0 {
        h.sample(J::obj().set("definition", &inst.def).set("aspect", &inst.aspect));
    }
    let name = inst.name;
    // the reversible geodesic works on all four elements in both directions
    let worked = inst.touches;
    for _ in 0..6 {
        let x = inst.sample(rng);
        let Some((y, _)) = predicates(h, idx, &ctx, op, D::F, &inst.def, name, &x, &worked, true) else { return };
        // the image of an in-domain point is in the domain of the inverse
        if predicates(h, idx, &ctx, op, D::I, &inst.def, name, &y, &worked, true).is_none() {
            return;
        }
        nan_propagation(h, idx, &ctx, op, D::F, &inst.def, name, &x, rng);
        nan_propagation(h, idx, &ctx, op, D::I, &inst.def, name, &y, rng);
        // NaN in an element the operator does not work on (the epoch of 2-D and 3-D data,
        // say) is no failure: the tuple is inside the domain and must be counted
        for i in 2..4 {
            if worked[i] {
                continue;
            }
            // (height and time only: the horizontal position is an input of every operator
            // here, even where a parameter choice makes its influence vanish numerically)
            // ... and that its value does not enter the result (the epoch does, for a
            // time dependent helmert; the latitude does, for permtide)
            let (y0, _) = apply1(&ctx, op, D::F, x);
            let mut moved = x;
            moved[i] += if x[i].abs() > 100.0 { 0.1 * x[i].abs() } else { 0.37 };
            let (y1, _) = apply1(&ctx, op, D::F, moved);
            if (0..4).any(|k| k != i && canon(y0[k]) != canon(y1[k])) {
                continue;
            }
            let mut p = x;
            p[i] = f64::NAN;
            let (q, c) = apply1(&ctx, op, D::F, p);
            h.eval(1);
            let fine = c == 1 && (0..4).all(|k| if k == i { q[k].is_nan() } else { !worked[k] || q[k].is_finite() });
            if !fine {
                v(
                    h,
                    idx,
                    &format!("nan-in-untouched-element-makes-the-tuple-fail/{name}/element-{i}"),
                    J::obj().set("definition", &inst.def).set("input", J::bits(&p)).set("output", J::bits(&q)).set("count", c),
                );
                return;
            }
            h.class(&format!("nan-in-untouched-element/{name}"));
        }
        // edge of and far outside the domain, hostile values: no domain promise, but honesty
        for _ in 0..4 {
            let p = hostile_tuple(rng, &x);
            if predicates(h, idx, &ctx, op, D::F, &inst.def, name, &p, &worked, false).is_none() {
                return;
            }
            let q = hostile_tuple(rng, &y);
            if predicates(h, idx, &ctx, op, D::I, &inst.def, name, &q, &worked, false).is_none() {
                return;
            }
        }
    }
    // declared failure sets
    declared_failures(h, idx, &ctx, op, inst, rng);
    // sets: the count never exceeds the size, and equals the number of NaN-free... no: only <=
    let mut set: Vec<Coor4D> = (0..17)
        .map(|_| {
            let base = inst.sample(rng);
            Coor4D(hostile_tuple(rng, &base))
        })
        .collect();
    let c = apply_set(&ctx, op, D::F, &mut set);
    if c != usize::MAX && c > 17 {
        v(h, idx, &format!("count-exceeds-set-size/{name}/fwd"), J::obj().set("definition", &inst.def).set("count", c).set("size", 17));
    }
}

/// Tuples in the failure sets the operators declare: must be NaN and not counted
fn declared_failures(h: &H, idx: u64, ctx: &Minimal, op: OpHandle, inst: &Inst, rng: &mut Rng) {
    let name = inst.name;
    let must_fail = |d: D, x: [f64; 4], what: &str| {
        let (y, c) = apply1(ctx, op, d, x);
        h.eval(1);
        h.class(&format!("declared-failure/{name}/{what}"));
        if c != 0 || !(y[0].is_nan() && y[1].is_nan()) {
            v(
                h,
                idx,
                &format!("declared-failure-not-flagged/{name}/{what}"),
                J::obj().set("definition", &inst.def).set("direction", d.name()).set("input", J::bits(&x)).set("output", J::bits(&y)).set("count", c),
            );
        }
    };
    let lon0 = super::c05::param(&inst.def, "lon_0").unwrap_or(0.0) * D2R;
    match name {
        "tmerc" | "utm" => {
            // 90 degrees from the central meridian on the equator is the singular point; the
            // operator declares the strip |eta| <= 2.6234 (about 82 degrees on the equator)
            // (forward, the limit is applied to the series-corrected value, which has no
            // simple pre-image near the singular point: only the generic predicates apply)
            let sz = inst.ell.a;
            let x0 = if name == "utm" { 500000.0 } else { super::c05::param(&inst.def, "x_0").unwrap_or(0.0) };
            let y = [x0 + 3.0 * sz * if rng.chance(0.5) { 1.0 } else { -1.0 }, 0.0, 0.0, 0.0];
            must_fail(D::I, y, "beyond-the-strip-inverse");
            // the strip is symmetric about the central meridian: whatever happens to a point east
            // of it (transformed and counted, or refused) happens to its mirror image in the west,
            // forward (in longitude) and inverse (in the easting reduced by x_0)
            let lon0 = if name == "utm" { (6.0 * super::c05::param(&inst.def, "zone").unwrap_or(31.0) - 183.0) * D2R } else { lon0 };
            for _ in 0..4 {
                let dl = rng.range(60.0, 110.0) * D2R;
                let lat = rng.range(-70.0, 70.0) * D2R;
                let (e, ce) = apply1(ctx, op, D::F, [lon0 + dl, lat, 0.0, 0.0]);
                let (w, cw) = apply1(ctx, op, D::F, [lon0 - dl, lat, 0.0, 0.0]);
                h.eval(2);
                h.class(&format!("strip-symmetry/{name}/fwd"));
                let mirrored = ce == cw && (ce == 0 || (((e[0] - x0) + (w[0] - x0)).abs() <= 1e-6 * sz && (e[1] - w[1]).abs() <= 1e-6 * sz));
                if !mirrored {
                    v(
                        h,
                        idx,
                        &format!("declared-failure-not-flagged/{name}/strip-not-symmetric/fwd"),
                        J::obj().set("definition", &inst.def).set("dlon_deg", dl / D2R).set("lat_deg", lat / D2R).set("east", J::bits(&e)).set("west", J::bits(&w)).set("counts_east_west", J::coords(&[ce as f64, cw as f64])),
                    );
                    return;
                }
                let dx = rng.range(2.0, 2.9) * sz * inst_k0(inst);
                let ny = rng.range(-0.5, 0.5) * sz;
                let y0 = super::c05::param(&inst.def, "y_0").unwrap_or(if inst.def.contains("south") { 1.0e7 } else { 0.0 });
                let (ei, cei) = apply1(ctx, op, D::I, [x0 + dx, y0 + ny, 0.0, 0.0]);
                let (wi, cwi) = apply1(ctx, op, D::I, [x0 - dx, y0 + ny, 0.0, 0.0]);
                h.eval(2);
                h.class(&format!("strip-symmetry/{name}/inv"));
                // (longitudes come back normalised: the mirror image holds modulo a full turn)
                let sum = ((ei[0] - lon0) + (wi[0] - lon0) + std::f64::consts::PI).rem_euclid(2.0 * std::f64::consts::PI) - std::f64::consts::PI;
                let mirrored = cei == cwi && (cei == 0 || (sum.abs() <= 1e-9 && (ei[1] - wi[1]).abs() <= 1e-9));
                if !mirrored {
                    v(
                        h,
                        idx,
                        &format!("declared-failure-not-flagged/{name}/strip-not-symmetric/inv"),
                        J::obj().set("definition", &inst.def).set("easting_offset", dx).set("east", J::bits(&ei)).set("west", J::bits(&wi)).set("counts_east_west", J::coords(&[cei as f64, cwi as f64])),
                    );
                    return;
                }
            }
        }
        "laea" => {
            let x0 = super::c05::param(&inst.def, "x_0").unwrap_or(0.0);
            let y0 = super::c05::param(&inst.def, "y_0").unwrap_or(0.0);
            if !inst.aspect.contains("polar") {
                let r = 2.2 * inst.ell.a;
                let az = rng.range(0.0, 6.28);
                must_fail(D::I, [x0 + r * az.cos(), y0 + r * az.sin(), 0.0, 0.0], "outside-the-disc");
            }
        }
        "lcc" => {
            let north = !inst.aspect.contains("_s");
            let pole = if north { -std::f64::consts::FRAC_PI_2 } else { std::f64::consts::FRAC_PI_2 };
            must_fail(D::F, [lon0 + 0.1, pole, 0.0, 0.0], "opposite-pole");
        }
        _ => {}
    }
}

fn inst_k0(inst: &Inst) -> f64 {
    super::c05::param(&inst.def, "k_0").unwrap_or(if inst.name == "utm" { 0.9996 } else { 1.0 })
}

fn grid_op(h: &H, idx: u64, def: &str, kind: &str, touches: &[bool; 4], rng: &mut Rng) {
    let mut ctx = Plain::new();
    let op = match ctx.op(def) {
        Ok(op) => op,
        Err(e) => {
            v(h, idx, "grid-operator-instantiation-failed", J::obj().set("definition", def).set("error", format!("{e}")));
            return;
        }
    };
    let name = def.split_whitespace().next().unwrap_or("");
    h.distinct(mix(hash_str(def), idx));
    let e = Ellipsoid::default();
    let inside = |rng: &mut Rng| -> [f64; 4] {
        let lat = rng.range(54.3, 57.7);
        let lon = rng.range(8.3, 15.7);
        match kind {
            "cart" => {
                let c = e.cartesian(&Coor4D([lon * D2R, lat * D2R, rng.range(0.0, 500.0), 0.0]));
                [c[0], c[1], c[2], rng.short_decimal(1990.0, 2030.0, 1)]
            }
            "deflection" => [lat, lon, 0.0, 0.0],
            _ => [lon * D2R, lat * D2R, rng.range(0.0, 500.0), 2000.0],
        }
    };
    let outside = |rng: &mut Rng| -> [f64; 4] {
        let (lat, lon) = match rng.below(4) {
            0 => (rng.range(59.0, 89.0), rng.range(8.0, 16.0)),
            1 => (rng.range(-89.0, 53.0), rng.range(8.0, 16.0)),
            2 => (rng.range(54.0, 58.0), rng.range(17.0, 179.0)),
            _ => (rng.range(54.0, 58.0), rng.range(-179.0, 7.0)),
        };
        match kind {
            "cart" => {
                let c = e.cartesian(&Coor4D([lon * D2R, lat * D2R, 100.0, 0.0]));
                [c[0], c[1], c[2], 2010.0]
            }
            "deflection" => [lat, lon, 0.0, 0.0],
            _ => [lon * D2R, lat * D2R, 100.0, 2000.0],
        }
    };
    let invertible = name != "deflection";
    for _ in 0..6 {
        let x = inside(rng);
        let Some((y, _)) = predicates(h, idx, &ctx, op, D::F, def, name, &x, touches, true) else { return };
        if invertible {
            if predicates(h, idx, &ctx, op, D::I, def, name, &y, touches, true).is_none() {
                return;
            }
            nan_propagation(h, idx, &ctx, op, D::I, def, name, &y, rng);
        }
        nan_propagation(h, idx, &ctx, op, D::F, def, name, &x, rng);
        // outside all grids
        let p = outside(rng);
        for d in if invertible { vec![D::F, D::I] } else { vec![D::F] } {
            let (q, c) = apply1(&ctx, op, d, p);
            h.eval(1);
            let detail = || J::obj().set("definition", def).set("direction", d.name()).set("input", J::bits(&p)).set("output", J::bits(&q)).set("count", c);
            if kind == "geo-null" {
                h.class(&format!("outside-coverage/with-null/{}", d.name()));
                if c != 1 || !same_bits(&p, &q) {
                    v(h, idx, &format!("null-grid-does-not-pass-unchanged/{name}/{}", d.name()), detail());
                    return;
                }
            } else {
                h.class(&format!("outside-coverage/without-null/{name}/{}", d.name()));
                if c != 0 || !any_nan(&q) {
                    v(
                        h,
                        idx,
                        &format!("outside-coverage-not-flagged/{name}/{}/{}", d.name(), if same_bits(&p, &q) { "unchanged" } else if any_nan(&q) { "nan-but-counted" } else { "transformed" }),
                        detail(),
                    );
                    return;
                }
            }
        }
        // the edge of the coverage, located on the operator itself: bisect the forward count
        // between the point inside and the point outside, then probe both sides of the boundary
        // at distances from 1e-9 to 1e-3 of the segment (the inverse iteration of a datum shift
        // leaves the coverage from such points)
        if kind != "geo-null" {
            let at = |s: f64| -> [f64; 4] { [x[0] + s * (p[0] - x[0]), x[1] + s * (p[1] - x[1]), x[2] + s * (p[2] - x[2]), x[3]] };
            let (mut lo, mut hi) = (0.0_f64, 1.0_f64);
            for _ in 0..40 {
                let mid = 0.5 * (lo + hi);
                if apply1(&ctx, op, D::F, at(mid)).1 == 1 {
                    lo = mid;
                } else {
                    hi = mid;
                }
            }
            h.class(&format!("coverage-edge-located/{name}"));
            for _ in 0..8 {
                let delta = 10f64.powf(rng.range(-9.0, -3.0)) * if rng.chance(0.5) { 1.0 } else { -1.0 };
                let q = at(lo + delta);
                if predicates(h, idx, &ctx, op, D::F, def, name, &q, touches, false).is_none() {
                    return;
                }
                if invertible && predicates(h, idx, &ctx, op, D::I, def, name, &q, touches, false).is_none() {
                    return;
                }
            }
        }
        // hostile
        let p = hostile_tuple(rng, &x);
        if predicates(h, idx, &ctx, op, D::F, def, name, &p, touches, false).is_none() {
            return;
        }
        if invertible && predicates(h, idx, &ctx, op, D::I, def, name, &p, touches, false).is_none() {
            return;
        }
    }
}

/// The coverage of a generated grid whose cells are as a rule not square, without a null grid:
/// the half-cell margin is half a latitude step to the north and south and half a longitude step
/// to the east and west.  A point further out than that on any side must come back as NaN and
/// uncounted in both directions; a point well inside the margin must be counted forward; the
/// count and the NaN must agree everywhere.
fn generated_coverage(h: &H, idx: u64, rng: &mut Rng) {
    use crate::gridgen::{GridCtx, GridSpec};
    use std::sync::Arc;
    let bands = 1 + rng.below(3);
    let mut spec = GridSpec::random(rng, bands, false);
    let ratio = *rng.pick(&[2.0, 0.5, 3.0, 1.0 / 3.0, 4.0, 0.25, 1.0]);
    spec.dlon = spec.dlat * ratio;
    spec.lon_e = spec.lon_w + spec.dlon * (spec.cols - 1) as f64;
    // (the harness's own limit: the whole probed band clear of the date line and the poles)
    if !(spec.lon_e + 2.0 * spec.dlon < 170.0 && spec.lon_w - 2.0 * spec.dlon > -170.0 && spec.lat_n + 2.0 * spec.dlat < 80.0 && spec.lat_s - 2.0 * spec.dlat > -80.0) {
        return;
    }
    let text = spec.gravsoft(rng);
    let Ok(g) = BaseGrid::gravsoft(text.as_bytes()) else { return };
    let ext = ["geoid", "datum", "deformation"][bands - 1];
    let mut ctx = GridCtx::new();
    ctx.grids.insert(format!("g.{ext}"), Arc::new(g));
    let (def, name, touches) = match bands {
        1 => (format!("gridshift grids=g.{ext}"), "gridshift", [false, false, true, false]),
        2 => (format!("gridshift grids=g.{ext}"), "gridshift", [true, true, false, false]),
        _ => (format!("deformation grids=g.{ext} dt={}", rng.int(1, 20)), "deformation", [true, true, true, false]),
    };
    let Ok(op) = ctx.op(&def) else { return };
    h.distinct(mix(hash_f64s(&[spec.lat_s, spec.lon_w, spec.dlat, spec.dlon]), idx));
    let e = Ellipsoid::default();
    let label = format!("{def} on lat {}..{} step {}, lon {}..{} step {}", spec.lat_s, spec.lat_n, spec.dlat, spec.lon_w, spec.lon_e, spec.dlon);
    for _ in 0..16 {
        // a position along one side, m cells outward of it
        let side = rng.below(4);
        let along = rng.range(0.05, 0.95);
        let m = if rng.chance(0.5) { rng.range(0.55, 1.6) } else { rng.range(-0.4, 0.45) };
        let (lon, lat) = match side {
            0 => (spec.lon_w + along * (spec.lon_e - spec.lon_w), spec.lat_n + m * spec.dlat),
            1 => (spec.lon_w + along * (spec.lon_e - spec.lon_w), spec.lat_s - m * spec.dlat),
            2 => (spec.lon_e + m * spec.dlon, spec.lat_s + along * (spec.lat_n - spec.lat_s)),
            _ => (spec.lon_w - m * spec.dlon, spec.lat_s + along * (spec.lat_n - spec.lat_s)),
        };
        let x = if bands == 3 {
            let c = e.cartesian(&Coor4D([lon * D2R, lat * D2R, rng.range(0.0, 300.0), 0.0]));
            [c[0], c[1], c[2], 2000.0]
        } else {
            [lon * D2R, lat * D2R, rng.range(0.0, 300.0), 2000.0]
        };
        let side_name = ["north", "south", "east", "west"][side];
        let shape = if ratio > 1.0 { "wide-cells" } else if ratio < 1.0 { "tall-cells" } else { "square-cells" };
        for d in [D::F, D::I] {
            let Some((y, c)) = predicates(h, idx, &ctx, op, d, &def, name, &x, &touches, false) else { return };
            let detail = || J::obj().set("operator", &label).set("direction", d.name()).set("side", side_name).set("cells_outside", m).set("input", J::bits(&x)).set("output", J::bits(&y)).set("count", c);
            if m > 0.5 {
                h.class(&format!("generated-grid/beyond-margin/{shape}/{side_name}"));
                if c != 0 || !any_nan(&y) {
                    v(h, idx, &format!("outside-coverage-not-flagged/generated-grid/{name}/{}/{side_name}/{shape}", d.name()), detail());
                    return;
                }
            } else {
                h.class(&format!("generated-grid/within-margin/{shape}/{side_name}"));
                if d == D::F && c != 1 {
                    v(h, idx, &format!("inside-margin-not-transformed/generated-grid/{name}/{side_name}/{shape}"), detail());
                    return;
                }
            }
        }
    }
}

/// The inverse geodesic problem between nearly antipodal points: where the library's own
/// `geodesic_inv` reports that Vincenty's iteration ran out of rounds, the operator (plain and
/// `reversible`) must overwrite the tuple with NaN and not count it; where it converged, the
/// tuple is counted
fn antipodal(h: &H, idx: u64, rng: &mut Rng) {
    let (en, ell) = catalog::pick_ellps(rng, false);
    let e = Ellipsoid::named(&en).unwrap_or(lib_ell(&ell));
    let mut ctx = Minimal::new();
    let defs = [format!("geodesic ellps={en}"), format!("geodesic reversible ellps={en}")];
    let mut ops = Vec::new();
    for d in &defs {
        match ctx.op(d) {
            Ok(op) => ops.push(op),
            Err(_) => return,
        }
    }
    h.distinct(mix(hash_str(&en), idx));
    for _ in 0..24 {
        let lat1 = rng.range(-60.0, 60.0) * if rng.chance(0.3) { 0.01 } else { 1.0 };
        let lon1 = rng.range(-179.0, 179.0);
        let lat2 = -lat1 + rng.range(-0.6, 0.6);
        let mut lon2 = lon1 + 180.0 + rng.range(-0.6, 0.6);
        if lon2 > 180.0 {
            lon2 -= 360.0;
        }
        let from = Coor2D::geo(lat1, lon1);
        let to = Coor2D::geo(lat2, lon2);
        let direct = e.geodesic_inv(&from, &to);
        let converged = direct[3] <= 990.0;
        for (k, op) in ops.iter().enumerate() {
            let x = [lat1, lon1, lat2, lon2];
            let (y, c) = apply1(&ctx, *op, D::I, x);
            h.eval(1);
            h.class(&format!("geodesic-antipodal/{}/{}", if k == 0 { "plain" } else { "reversible" }, if converged { "converged" } else { "not-converged" }));
            let ok = if converged { c == 1 && all_finite(&y) } else { c == 0 && y.iter().all(|v| v.is_nan()) };
            if !ok {
                v(
                    h,
                    idx,
                    &format!("declared-failure-not-flagged/geodesic/{}/{}", if k == 0 { "plain" } else { "reversible" }, if converged { "converged-but-failed" } else { "non-convergence" }),
                    J::obj()
                        .set("definition", &defs[k])
                        .set("input_lat_lon_lat_lon_deg", J::coords(&x))
                        .set("iterations_reported_by_geodesic_inv", direct[3])
                        .set("output", J::bits(&y))
                        .set("count", c),
                );
                return;
            }
        }
    }
}

fn one_way(h: &H, idx: u64, def: &str, rng: &mut Rng) {
    let mut ctx = Plain::new();
    let Ok(op) = ctx.op(def) else {
        v(h, idx, "one-way-operator-instantiation-failed", J::obj().set("definition", def));
        return;
    };
    let name = def.split_whitespace().next().unwrap_or("");
    h.class(&format!("one-way/{name}"));
    h.distinct(mix(hash_str(def), idx));
    let n = 1 + rng.below(4);
    let mut set: Vec<Coor4D> = (0..n)
        .map(|_| Coor4D([rng.range(54.5, 57.5), rng.range(8.5, 15.5), rng.range(0.0, 100.0), rng.hostile_f64()]))
        .collect();
    let before = set.clone();
    let c = apply_set(&ctx, op, D::I, &mut set);
    h.eval(n as u64);
    let same = (0..n).all(|i| set[i].0.iter().zip(before[i].0.iter()).all(|(a, b)| a.to_bits() == b.to_bits()));
    if c != 0 || !same {
        v(
            h,
            idx,
            &format!("unsupported-inverse-not-a-placeholder/{name}"),
            J::obj().set("definition", def).set("count", c).set("before", J::Arr(before.iter().map(|c| J::bits(&c.0)).collect())).set("after", J::Arr(set.iter().map(|c| J::bits(&c.0)).collect())),
        );
    }
    // forward inside the domain counts everything
    let mut set = before.clone();
    let c = apply_set(&ctx, op, D::F, &mut set);
    if c != n {
        v(h, idx, &format!("in-domain-tuple-failed/{name}/fwd/not-counted"), J::obj().set("definition", def).set("count", c).set("size", n));
    }
}

fn pipelines(h: &H, idx: u64, rng: &mut Rng) {
    let defs = [
        "gridshift grids=test.datum | addone",
        "addone | gridshift grids=test.geoid | addone inv",
        "tmerc lon_0=12 | addone | addone inv | tmerc inv lon_0=12",
        "stack pop=1 | addone",
        "stack push=1 | stack pop=1,2 | noop",
        "addone | pop v_1 | addone",
        "stack push=1,2 | stack roll=3,1 | stack pop=1,2",
        "geo:in | gridshift grids=test.datum | utm zone=32 | neu:out",
        "gridshift grids=test.datum,@null | tmerc lon_0=11",
        "addone | curvature prime | addone",
        "addone | gravity grs80 | noop",
        "noop | oneway:m | addone",
    ];
    let def = *rng.pick(&defs);
    let mut ctx = Plain::new();
    ctx.register_resource("oneway:m", "addone | curvature mean");
    let Ok(op) = ctx.op(def) else {
        v(h, idx, "pipeline-instantiation-failed", J::obj().set("definition", def));
        return;
    };
    h.distinct(mix(hash_str(def), idx));
    let one_way_step = def.contains("curvature") || def.contains("gravity") || def.contains("oneway:");
    let n = 1 + rng.below(5);
    let geo_in = def.starts_with("geo:in");
    let set: Vec<Coor4D> = (0..n)
        .map(|_| {
            let inside = rng.chance(0.6);
            let (lat, lon) = if inside { (rng.range(54.5, 57.5), rng.range(8.5, 15.5)) } else { (rng.range(-80.0, 80.0), rng.range(100.0, 170.0)) };
            if geo_in {
                Coor4D([lat, lon, 0.0, 0.0])
            } else {
                Coor4D([lon * D2R, lat * D2R, 0.0, 0.0])
            }
        })
        .collect();
    for d in [D::F, D::I] {
        let mut data = set.clone();
        geodesy::verif::trace_start();
        let c = apply_set(&ctx, op, d, &mut data);
        let trace = geodesy::verif::trace_take();
        h.eval(n as u64);
        // top level step events are the last ones emitted for each step of this (flat) pipeline
        let counts: Vec<usize> = trace
            .iter()
            .filter_map(|e| match e {
                Event::Step { skipped: false, count, .. } => Some(*count),
                _ => None,
            })
            .collect();
        let nested = def.contains(':');
        if !nested {
            let min = counts.iter().copied().min().unwrap_or(n);
            h.class("pipeline/minimum-over-steps");
            if c != min {
                v(
                    h,
                    idx,
                    &format!("pipeline-count-is-not-the-minimum/{}", d.name()),
                    J::obj().set("definition", def).set("direction", d.name()).set("count", c).set("per_step_counts", format!("{counts:?}")).set("input", J::Arr(set.iter().map(|c| J::coords(&c.0)).collect())),
                );
                return;
            }
        }
        if c != usize::MAX && c > n {
            v(h, idx, &format!("count-exceeds-set-size/pipeline/{}", d.name()), J::obj().set("definition", def).set("count", c).set("size", n));
            return;
        }
        // a step without an inverse reports zero when asked for it, and the pipeline the minimum
        if one_way_step && d == D::I {
            h.class("pipeline/one-way-step-inverse");
            if c != 0 {
                v(h, idx, "pipeline-with-a-one-way-step-reports-successes-inverse", J::obj().set("definition", def).set("count", c).set("size", n));
                return;
            }
            continue;
        }
        // the pipeline count is at most the number of tuples that look valid at the end
        let valid = data.iter().filter(|t| !any_nan(&t.0)).count();
        if c != usize::MAX && c > valid && !def.contains("@null") {
            v(
                h,
                idx,
                &format!("pipeline-counts-more-than-the-valid-tuples/{}", d.name()),
                J::obj().set("definition", def).set("direction", d.name()).set("count", c).set("valid_tuples_after", valid).set("output", J::Arr(data.iter().map(|c| J::coords(&c.0)).collect())),
            );
            return;
        }
    }
}

#[allow(dead_code)]
fn unused() -> u64 {
    hash_f64s(&[0.0])
}
