//! C11 - adapt, axisswap and unitconvert do exactly the declared reordering and scaling.
//! Table-driven reference written from Rumination 002; the finite spaces are enumerated.

use crate::harness::{hash_str, H};
use crate::json::J;
use crate::rng::{mix, Rng};
use crate::util::*;
use geodesy::authoring::*;
use std::f64::consts::PI;

const LETTERS: [char; 8] = ['e', 'n', 'u', 'f', 'w', 's', 'd', 'p'];
const SUFFIXES: [&str; 5] = ["", "_rad", "_deg", "_gon", "_any"];
const BAD_SUFFIXES: [&str; 8] = ["_foo", "_de", "_", "rad", "_degx", "_RAD", "_grad", "deg_"];

#[derive(Clone, Debug)]
struct Desc {
    text: String,
    axis: [usize; 4],
    sign: [f64; 4],
    unit: f64,
}

/// A four letter word is a valid descriptor iff it names each of the four axes once
fn parse_word(w: &[char; 4]) -> Option<([usize; 4], [f64; 4])> {
    let mut axis = [0usize; 4];
    let mut sign = [1.0; 4];
    let mut seen = [false; 4];
    for i in 0..4 {
        let k = LETTERS.iter().position(|c| c == &w[i])?;
        axis[i] = k % 4;
        sign[i] = if k >= 4 { -1.0 } else { 1.0 };
        if seen[axis[i]] {
            return None;
        }
        seen[axis[i]] = true;
    }
    Some((axis, sign))
}

fn unit_of(suffix: &str) -> f64 {
    match suffix {
        "_deg" => PI / 180.0,
        "_gon" => PI / 200.0,
        _ => 1.0,
    }
}

fn all_descriptors() -> Vec<Desc> {
    let mut out = Vec::new();
    for a in 0..8 {
        for b in 0..8 {
            for c in 0..8 {
                for d in 0..8 {
                    let w = [LETTERS[a], LETTERS[b], LETTERS[c], LETTERS[d]];
                    if let Some((axis, sign)) = parse_word(&w) {
                        for s in SUFFIXES {
                            out.push(Desc {
                                text: format!("{}{s}", w.iter().collect::<String>()),
                                axis,
                                sign,
                                unit: unit_of(s),
                            });
                        }
                    }
                }
            }
        }
    }
    out
}

/// external (descriptor order, sign, unit) -> internal (e, n, u, f in radians)
fn to_internal(d: &Desc, x: &[f64; 4]) -> [f64; 4] {
    let mut r = [0.0; 4];
    for i in 0..4 {
        let u = if d.axis[i] < 2 { d.unit } else { 1.0 };
        r[d.axis[i]] = x[i] * (d.sign[i] * u);
    }
    r
}

fn to_external(d: &Desc, x: &[f64; 4]) -> [f64; 4] {
    let mut r = [0.0; 4];
    for i in 0..4 {
        let u = if d.axis[i] < 2 { d.unit } else { 1.0 };
        r[i] = x[d.axis[i]] / (d.sign[i] * u);
    }
    r
}

fn close(a: &[f64; 4], b: &[f64; 4], exact: bool) -> bool {
    (0..4).all(|i| {
        if exact {
            canon(a[i]) == canon(b[i])
        } else {
            (a[i] - b[i]).abs() <= 2.0 * crate::geo::ulp(a[i].abs().max(b[i].abs()))
        }
    })
}

const PROBE: [f64; 4] = [12.25, -57.5, 803.125, 2021.75];

fn adapt_pair(h: &H, idx: u64, ctx: &mut Minimal, from: Option<&Desc>, to: Option<&Desc>) {
    let def = match (from, to) {
        (Some(f), Some(t)) => format!("adapt from={} to={}", f.text, t.text),
        (Some(f), None) => format!("adapt from={}", f.text),
        (None, Some(t)) => format!("adapt to={}", t.text),
        _ => return,
    };
    let op = match ctx.op(&def) {
        Ok(op) => op,
        Err(e) => {
            h.violation(idx, "C11/adapt/valid-descriptor-rejected", J::obj().set("definition", &def).set("error", format!("{e}")));
            return;
        }
    };
    let enuf = Desc { text: "enuf".into(), axis: [0, 1, 2, 3], sign: [1.0; 4], unit: 1.0 };
    let f = from.unwrap_or(&enuf);
    let t = to.unwrap_or(&enuf);
    let exact = f.unit == t.unit;
    let want = to_external(t, &to_internal(f, &PROBE));
    let (got, _) = apply1(ctx, op, D::F, PROBE);
    h.eval(2);
    let detail = |what: &str, got: &[f64; 4], want: &[f64; 4]| {
        J::obj().set("what", what).set("definition", &def).set("input", J::coords(&PROBE)).set("library", J::coords(got)).set("declared", J::coords(want))
    };
    // exact when both sides carry the same unit: then the factor must be exactly +-1
    let exact_fwd = exact || (0..4).all(|i| f.axis[i] >= 2);
    let _ = exact_fwd;
    if !close(&got, &want, exact) {
        h.violation(idx, &format!("C11/adapt/mapping-differs/{}", kind(from, to)), detail("forward mapping is not the declared one", &got, &want));
        return;
    }
    // the inverse is the exact reverse mapping
    let want_i = to_external(f, &to_internal(t, &PROBE));
    let (got_i, _) = apply1(ctx, op, D::I, PROBE);
    if !close(&got_i, &want_i, exact) {
        h.violation(idx, &format!("C11/adapt/inverse-differs/{}", kind(from, to)), detail("inverse mapping is not the reverse of the declared one", &got_i, &want_i));
    }
}

fn kind(from: Option<&Desc>, to: Option<&Desc>) -> &'static str {
    match (from.is_some(), to.is_some()) {
        (true, true) => "from-to",
        (true, false) => "from",
        _ => "to",
    }
}

pub fn run(h: &H) {
    let descs = all_descriptors();
    h.extra("valid_descriptors", J::Int(descs.len() as i64));
    if descs.len() != 1920 {
        h.violation(u64::MAX, "HARNESS-PANIC/descriptor-count", J::Int(descs.len() as i64));
        return;
    }
    let nd = descs.len() as u64;
    // segments of the exhaustive enumeration
    let seg_single = 2 * nd; // from-only, to-only
    let seg_words = 4096; // acceptance of all 4-letter words
    let seg_axis = 1; // axisswap, all in one case per shard slice below
    let seg_units = 1;
    let pairs = if h.quick() { 0 } else { nd * nd };
    let total = seg_single + seg_words + pairs;
    h.extra("enumerated_cases", J::Int((total + 2) as i64));
    let _ = (seg_axis, seg_units);

    // to keep the WAL small the enumeration is guarded in blocks of 512
    let block = 512u64;
    let nblocks = total.div_ceil(block);
    for b in h.my_share(nblocks) {
        h.guard(b, &format!("enumeration block {b} of adapt descriptors"), || {
            let mut ctx = Minimal::new();
            for e in (b * block)..((b + 1) * block).min(total) {
                if e < nd {
                    adapt_pair(h, b, &mut ctx, Some(&descs[e as usize]), None);
                    h.class("adapt/from-only");
                    h.distinct(hash_str(&descs[e as usize].text));
                    to_equals_inv_from(h, b, &mut ctx, &descs[e as usize]);
                } else if e < 2 * nd {
                    adapt_pair(h, b, &mut ctx, None, Some(&descs[(e - nd) as usize]));
                    h.class("adapt/to-only");
                    h.distinct(mix(7, hash_str(&descs[(e - nd) as usize].text)));
                } else if e < seg_single + seg_words {
                    acceptance(h, b, &mut ctx, e - seg_single);
                } else {
                    let k = e - seg_single - seg_words;
                    let (f, t) = (&descs[(k / nd) as usize], &descs[(k % nd) as usize]);
                    adapt_pair(h, b, &mut ctx, Some(f), Some(t));
                    h.class("adapt/from-to");
                    h.distinct(mix(hash_str(&f.text), hash_str(&t.text)));
                }
                if ctx_too_big(e) {
                    ctx = Minimal::new();
                }
            }
        });
    }
    // random pairs in the quick tier
    if h.quick() {
        let n = h.budget(20_000, 0);
        for idx in h.cases(n) {
            let id = idx + (1u64 << 40);
            let mut rng = h.rng(id);
            let f = descs[rng.below(descs.len())].clone();
            let t = descs[rng.below(descs.len())].clone();
            h.guard(id, &format!("adapt from={} to={}", f.text, t.text), || {
                let mut ctx = Minimal::new();
                adapt_pair(h, id, &mut ctx, Some(&f), Some(&t));
                h.class("adapt/from-to");
                h.distinct(mix(hash_str(&f.text), hash_str(&t.text)));
            });
        }
    }
    // axisswap and unitconvert: small finite spaces, one shard each
    if h.cfg.shard == 0 % h.cfg.nshards && h.cfg.only.is_none() {
        h.guard(u64::MAX - 2, "axisswap: all signed partial permutations and invalid index lists", || axisswap(h));
    }
    if h.cfg.shard == 1 % h.cfg.nshards && h.cfg.only.is_none() {
        h.guard(u64::MAX - 3, "unitconvert: all unit pairs", || unitconvert(h));
    }
    if h.cfg.shard == 2 % h.cfg.nshards && h.cfg.only.is_none() {
        h.guard(u64::MAX - 4, "the built-in adaptor macros", || adaptors(h));
    }
    if h.want_sample() {
        h.sample(J::obj().set("adapt", "adapt from=neuf_deg to=wsdp_gon").set("probe", J::coords(&PROBE)));
    }
}

/// The adaptor macros every context starts with (Rumination 002: geo = latitude, longitude in
/// degrees; gis = longitude, latitude in degrees; neu = northing, easting; enu = the internal
/// order itself; `:in` towards the internal convention, `:out` away from it), written down here as
/// mappings of a tuple, independently of the `adapt` descriptors they are defined by
fn adaptors(h: &H) {
    let idx = u64::MAX - 4;
    let d2r = std::f64::consts::PI / 180.0;
    let p = PROBE;
    type Map = fn(&[f64; 4], f64) -> [f64; 4];
    let table: [(&str, Map); 8] = [
        ("geo:in", |p, k| [p[1] * k, p[0] * k, p[2], p[3]]),
        ("geo:out", |p, k| [p[1] / k, p[0] / k, p[2], p[3]]),
        ("gis:in", |p, k| [p[0] * k, p[1] * k, p[2], p[3]]),
        ("gis:out", |p, k| [p[0] / k, p[1] / k, p[2], p[3]]),
        ("neu:in", |p, _| [p[1], p[0], p[2], p[3]]),
        ("neu:out", |p, _| [p[1], p[0], p[2], p[3]]),
        ("enu:in", |p, _| *p),
        ("enu:out", |p, _| *p),
    ];
    for (make, label) in [(true, "Minimal"), (false, "Plain")] {
        for (name, map) in table.iter() {
            let want = map(&p, d2r);
            let (got, count) = if make {
                let mut ctx = Minimal::new();
                let Ok(op) = ctx.op(name) else {
                    h.violation(idx, &format!("C11/adaptor/{name}/not-available"), J::obj().set("context", label));
                    continue;
                };
                apply1(&ctx, op, D::F, p)
            } else {
                let mut ctx = Plain::new();
                let Ok(op) = ctx.op(name) else {
                    h.violation(idx, &format!("C11/adaptor/{name}/not-available"), J::obj().set("context", label));
                    continue;
                };
                apply1(&ctx, op, D::F, p)
            };
            h.eval(1);
            h.distinct(mix(hash_str(name), make as u64));
            h.class("adaptor-macros");
            let ok = count == 1 && (0..4).all(|i| (got[i] - want[i]).abs() <= 2.0 * crate::geo::ulp(want[i]));
            if !ok {
                h.violation(
                    idx,
                    &format!("C11/adaptor/{name}/mapping-differs"),
                    J::obj().set("context", label).set("input", J::coords(&p)).set("library", J::coords(&got)).set("documented", J::coords(&want)),
                );
            }
        }
    }
}

fn ctx_too_big(e: u64) -> bool {
    e % 4096 == 4095
}

/// `adapt to=X` equals `adapt inv from=X`, bit for bit
fn to_equals_inv_from(h: &H, idx: u64, ctx: &mut Minimal, d: &Desc) {
    let a = ctx.op(&format!("adapt to={}", d.text));
    let b = ctx.op(&format!("adapt inv from={}", d.text));
    let (Ok(a), Ok(b)) = (a, b) else {
        h.violation(idx, "C11/adapt/to-or-inv-from-rejected", J::obj().set("descriptor", &d.text));
        return;
    };
    for dir in [D::F, D::I] {
        let (ra, _) = apply1(ctx, a, dir, PROBE);
        let (rb, _) = apply1(ctx, b, dir, PROBE);
        h.eval(2);
        // multiplying by 1/k and dividing by k may differ in the last bit when a unit is involved
        if !close(&ra, &rb, d.unit == 1.0) {
            h.violation(
                idx,
                &format!("C11/adapt/to-differs-from-inv-from/{}", dir.name()),
                J::obj().set("descriptor", &d.text).set("to", J::bits(&ra)).set("inv_from", J::bits(&rb)),
            );
            return;
        }
    }
}

/// All 4096 four-letter words x valid and invalid suffixes: accepted iff a signed permutation
/// with a valid suffix
fn acceptance(h: &H, idx: u64, ctx: &mut Minimal, k: u64) {
    let w = [
        LETTERS[(k / 512) as usize % 8],
        LETTERS[(k / 64) as usize % 8],
        LETTERS[(k / 8) as usize % 8],
        LETTERS[k as usize % 8],
    ];
    let word: String = w.iter().collect();
    let valid_word = parse_word(&w).is_some();
    for (suffixes, ok) in [(&SUFFIXES[..], true), (&BAD_SUFFIXES[..], false)] {
        for s in suffixes {
            let text = format!("{word}{s}");
            let expect = valid_word && ok;
            for def in [format!("adapt from={text}"), format!("adapt to={text}")] {
                let got = ctx.op(&def).is_ok();
                h.eval(1);
                if got != expect {
                    h.violation(
                        idx,
                        if expect { "C11/adapt/valid-descriptor-rejected" } else { "C11/adapt/invalid-descriptor-accepted" },
                        J::obj().set("definition", &def),
                    );
                }
            }
        }
    }
    h.class("adapt/acceptance-words");
    h.distinct(mix(99, k));
    if k == 0 {
        for def in ["adapt from=pass", "adapt to=pass", "adapt from=enu", "adapt from=enufx", "adapt from=", "adapt from=ENUF"] {
            let expect = def.ends_with("pass");
            if ctx.op(def).is_ok() != expect {
                h.violation(idx, if expect { "C11/adapt/valid-descriptor-rejected" } else { "C11/adapt/invalid-descriptor-accepted" }, J::obj().set("definition", def));
            }
        }
    }
}

fn axisswap(h: &H) {
    let idx = u64::MAX - 2;
    let mut ctx = Minimal::new();
    let mut valid = 0u64;
    let mut invalid = 0u64;
    // all index lists of length 1..5 over -5..5
    for len in 1..=5usize {
        let n = 11u64.pow(len as u32);
        for code in 0..n {
            let mut c = code;
            let mut list = Vec::with_capacity(len);
            for _ in 0..len {
                list.push((c % 11) as i64 - 5);
                c /= 11;
            }
            let ok = len <= 4 && {
                let mut seen = [false; 5];
                list.iter().all(|v| {
                    let a = v.unsigned_abs() as usize;
                    if a == 0 || a > len || seen[a] {
                        false
                    } else {
                        seen[a] = true;
                        true
                    }
                })
            };
            let text = list.iter().map(|v| v.to_string()).collect::<Vec<_>>().join(",");
            let def = format!("axisswap order={text}");
            let r = ctx.op(&def);
            h.eval(1);
            if ok {
                valid += 1;
                let Ok(op) = r else {
                    h.violation(idx, "C11/axisswap/valid-order-rejected", J::obj().set("definition", &def));
                    continue;
                };
                // gather forward, scatter inverse; elements beyond the list untouched
                let mut wf = PROBE;
                let mut wi = PROBE;
                for (i, v) in list.iter().enumerate() {
                    let src = v.unsigned_abs() as usize - 1;
                    let sg = if *v < 0 { -1.0 } else { 1.0 };
                    wf[i] = PROBE[src] * sg;
                    wi[src] = PROBE[i] * sg;
                }
                let (gf, _) = apply1(&ctx, op, D::F, PROBE);
                let (gi, _) = apply1(&ctx, op, D::I, PROBE);
                if !same_bits(&gf, &wf) || !same_bits(&gi, &wi) {
                    h.violation(
                        idx,
                        "C11/axisswap/mapping-differs",
                        J::obj().set("definition", &def).set("forward", J::coords(&gf)).set("declared_forward", J::coords(&wf)).set("inverse", J::coords(&gi)).set("declared_inverse", J::coords(&wi)),
                    );
                }
                h.distinct(hash_str(&def));
            } else {
                invalid += 1;
                if r.is_ok() {
                    h.violation(idx, "C11/axisswap/invalid-order-accepted", J::obj().set("definition", &def));
                }
            }
        }
        if ctx_too_big(4095) {
            ctx = Minimal::new();
        }
    }
    for def in ["axisswap order=1.5,2", "axisswap order=", "axisswap order=a,b", "axisswap order=1,,2"] {
        if ctx.op(def).is_ok() {
            h.violation(idx, "C11/axisswap/invalid-order-accepted", J::obj().set("definition", def));
        }
    }
    h.class_n("axisswap/valid-orders", valid);
    h.class_n("axisswap/invalid-orders", invalid);
    h.extra("axisswap_valid_orders", J::Int(valid as i64));
    if valid != 442 {
        h.violation(idx, "HARNESS-PANIC/axisswap-count", J::Int(valid as i64));
    }
}

/// PROJ units.c: (name, factor to metres / radians)
const PUBLISHED_LINEAR: [(&str, f64); 21] = [
    ("km", 1000.0),
    ("m", 1.0),
    ("dm", 0.1),
    ("cm", 0.01),
    ("mm", 0.001),
    ("kmi", 1852.0),
    ("in", 0.0254),
    ("ft", 0.3048),
    ("yd", 0.9144),
    ("mi", 1609.344),
    ("fath", 1.8288),
    ("ch", 20.1168),
    ("link", 0.201168),
    ("us-in", 100.0 / 3937.0),
    ("us-ft", 1200.0 / 3937.0),
    ("us-yd", 3600.0 / 3937.0),
    ("us-ch", 79200.0 / 3937.0),
    ("us-mi", 6336000.0 / 3937.0),
    ("ind-yd", 0.91439523),
    ("ind-ft", 0.30479841),
    ("ind-ch", 20.11669506),
];

const PUBLISHED_ANGULAR: [(&str, f64); 3] = [("rad", 1.0), ("deg", PI / 180.0), ("grad", PI / 200.0)];

fn unitconvert(h: &H) {
    let idx = u64::MAX - 3;
    let (lin, ang) = geodesy::verif::unit_tables();
    // every published name is in the table once, and nothing else
    for (table, published, what) in [(&lin, &PUBLISHED_LINEAR[..], "linear"), (&ang, &PUBLISHED_ANGULAR[..], "angular")] {
        for (name, _) in published {
            let n = table.iter().filter(|t| t.0 == *name).count();
            if n != 1 {
                h.violation(
                    idx,
                    &format!("C11/unitconvert/unit-table/{name}-listed-{n}-times"),
                    J::obj().set("table", what).set("names_in_library_table", J::Arr(table.iter().map(|t| J::s(t.0)).collect())),
                );
            }
        }
        for (name, _) in table.iter() {
            if !published.iter().any(|p| p.0 == *name) {
                h.uncovered(&format!("unit '{name}' is in the library's {what} table but not in the harness's published table"));
            }
        }
    }
    let mut ctx = Minimal::new();
    let all: Vec<(&str, f64)> = PUBLISHED_LINEAR.iter().chain(PUBLISHED_ANGULAR.iter()).copied().collect();
    for (a, fa) in &all {
        for (b, fb) in &all {
            for z in [false, true] {
                let def = if z { format!("unitconvert z_in={a} z_out={b}") } else { format!("unitconvert xy_in={a} xy_out={b}") };
                h.eval(1);
                h.distinct(hash_str(&def));
                let op = match ctx.op(&def) {
                    Ok(op) => op,
                    Err(e) => {
                        h.violation(idx, &format!("C11/unitconvert/published-unit-rejected/{}", if ctx.op(&format!("unitconvert xy_in={a}")).is_err() { a } else { b }), J::obj().set("definition", &def).set("error", format!("{e}")));
                        continue;
                    }
                };
                let k = fa / fb;
                let mut want = PROBE;
                let mut want_i = PROBE;
                if z {
                    want[2] *= k;
                    want_i[2] /= k;
                } else {
                    want[0] *= k;
                    want[1] *= k;
                    want_i[0] /= k;
                    want_i[1] /= k;
                }
                let (gf, _) = apply1(&ctx, op, D::F, PROBE);
                let (gi, _) = apply1(&ctx, op, D::I, PROBE);
                let ok = |g: &[f64; 4], w: &[f64; 4]| (0..4).all(|i| (g[i] - w[i]).abs() <= 4.0 * crate::geo::ulp(w[i]));
                if !ok(&gf, &want) || !ok(&gi, &want_i) {
                    h.violation(
                        idx,
                        &format!("C11/unitconvert/factor-differs/{a}-{b}"),
                        J::obj().set("definition", &def).set("forward", J::coords(&gf)).set("declared_forward", J::coords(&want)).set("inverse", J::coords(&gi)).set("declared_inverse", J::coords(&want_i)),
                    );
                }
            }
        }
    }
    h.class_n("unitconvert/pairs", (all.len() * all.len() * 2) as u64);
    // unknown names are rejected
    for def in ["unitconvert xy_in=furlong", "unitconvert z_out=", "unitconvert xy_in=M", "unitconvert xy_out=us_ft"] {
        if ctx.op(def).is_ok() {
            h.violation(idx, "C11/unitconvert/unknown-unit-accepted", J::obj().set("definition", def));
        }
    }
}

#[allow(dead_code)]
fn unused(_: &mut Rng) {}
