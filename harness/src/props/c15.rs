//! C15 - grid files decode faithfully; damaged files are rejected (or decode to something that
//! can be queried safely), never crash, hang or allocate without bound.
//! Round trip through harness encoders + crash/hang/allocation monitor over a damage campaign.

use crate::alloc;
use crate::gridgen::{self, GridSpec, SubGrid};
use crate::harness::{hash_str, H};
use crate::json::J;
use crate::rng::{mix, Rng};
use geodesy::authoring::*;

fn v(h: &H, idx: u64, sig: &str, d: J) {
    h.violation(idx, &format!("C15/{sig}"), d);
}

const SHIPPED: [&str; 10] = [
    "datum/test.datum",
    "datum/test_subset.datum",
    "geoid/test.geoid",
    "deformation/test.deformation",
    "deformation/another_test.deformation",
    "gsb/5458.gsb",
    "gsb/5458_with_subgrid.gsb",
    "gsb/100800401.gsb",
    "gsb/5458.gsa",
    "gsb/5458_with_subgrid.gsa",
];

fn shipped(name: &str) -> Option<Vec<u8>> {
    std::fs::read(format!("geodesy/{name}")).ok()
}

fn f32_ulp(x: f64) -> f64 {
    let a = (x.abs() as f32).max(f32::MIN_POSITIVE);
    (f32::from_bits(a.to_bits() + 1) - a) as f64
}

pub fn run(h: &H) {
    let n = h.budget(6_000, 600_000);
    for idx in h.cases(n) {
        let mut rng = h.rng(idx);
        match idx % 8 {
            0 => {
                h.guard(idx, "faithful decoding: gravsoft", || faithful_gravsoft(h, idx, &mut rng));
            }
            1 => {
                h.guard(idx, "faithful decoding: ntv2", || faithful_ntv2(h, idx, &mut rng));
            }
            2 if idx % 64 == 2 => {
                h.guard(idx, "shipped .gsb against its .gsa twin", || gsb_vs_gsa(h, idx));
            }
            _ => damage(h, idx, &mut rng),
        }
    }
    // byte-exact truncation and header bit flips of the (small) shipped files, partitioned
    let small: Vec<(&str, Vec<u8>)> = SHIPPED.iter().filter_map(|n| shipped(n).map(|b| (*n, b))).filter(|(_, b)| b.len() < 65536).collect();
    if small.is_empty() {
        h.note("the shipped grid files were not found under ./geodesy");
        return;
    }
    let mut jobs: Vec<(usize, usize, u8)> = Vec::new(); // (file, position, kind: 0 = truncate, 1..8 = flip bit)
    for (fi, (_, b)) in small.iter().enumerate() {
        let stride = if h.quick() { 7 } else { 1 };
        for len in (0..b.len()).step_by(stride) {
            jobs.push((fi, len, 0));
        }
        let header = b.len().min(11 * 16 * 3);
        let bitstride = if h.quick() { 5 } else { 1 };
        for pos in (0..header).step_by(bitstride) {
            for bit in 0..8u8 {
                jobs.push((fi, pos, 1 + bit));
            }
        }
    }
    h.extra("systematic_damage_jobs", J::Int(jobs.len() as i64));
    let block = 256u64;
    for b in h.my_share((jobs.len() as u64).div_ceil(block)) {
        for j in (b * block) as usize..(((b + 1) * block) as usize).min(jobs.len()) {
            let (fi, pos, kind) = jobs[j];
            let (name, bytes) = &small[fi];
            let mut data = bytes.clone();
            let what = if kind == 0 {
                data.truncate(pos);
                format!("{name} truncated to {pos} bytes")
            } else {
                data[pos] ^= 1 << (kind - 1);
                format!("{name} bit {} of byte {pos} flipped", kind - 1)
            };
            let id = (1u64 << 40) + j as u64;
            let mut rng = h.rng(id);
            let gsb = name.ends_with(".gsb");
            h.guard(id, &what, || decode_and_query(h, id, &data, gsb, &what, &mut rng));
            h.class(if kind == 0 { "damage/truncation-of-shipped-file" } else { "damage/header-bit-flip-of-shipped-file" });
        }
    }
}

/// Decode (either decoder), then query; the allocation monitor watches the whole case
fn decode_and_query(h: &H, idx: u64, data: &[u8], gsb: bool, what: &str, rng: &mut Rng) {
    let mark = alloc::mark();
    let grid: Option<Box<dyn Grid>> = if gsb {
        Ntv2Grid::new(data).ok().map(|g| Box::new(g) as Box<dyn Grid>)
    } else {
        BaseGrid::gravsoft(data).ok().map(|g| Box::new(g) as Box<dyn Grid>)
    };
    h.eval(1);
    match &grid {
        None => h.class("damage/rejected"),
        Some(g) => {
            h.class("damage/accepted-and-queried");
            let _ = g.bands();
            for _ in 0..32 {
                let p = match rng.below(4) {
                    0 => Coor4D([rng.range(0.1, 0.3), rng.range(0.94, 1.02), 0.0, 0.0]),
                    1 => Coor4D([rng.hostile_f64(), rng.hostile_f64(), 0.0, 0.0]),
                    2 => Coor4D([rng.range(-4.0, 4.0), rng.range(-2.0, 2.0), 0.0, 0.0]),
                    _ => Coor4D([rng.range(-1e7, 1e7), rng.range(-1e7, 1e7), 0.0, 0.0]),
                };
                for margin in [0.0, 0.5, 100.0] {
                    let _ = g.contains(&p, margin);
                    let _ = g.at(&p, margin);
                    h.eval(1);
                }
            }
        }
    }
    let peak = alloc::peak_since(mark);
    let bound = 64 * data.len() + (16 << 20);
    h.max("peak allocation / bound", peak as f64 / bound as f64, || what.to_string());
    if peak > bound {
        v(
            h,
            idx,
            &format!("unbounded-allocation/{}", if gsb { "ntv2" } else { "gravsoft" }),
            J::obj().set("case", what).set("input_bytes", data.len()).set("peak_bytes", peak).set("bound_bytes", bound),
        );
    }
}

fn faithful_gravsoft(h: &H, idx: u64, rng: &mut Rng) {
    let bands = 1 + rng.below(3);
    let projected = bands == 1 && rng.chance(0.3);
    let spec = GridSpec::random(rng, bands, projected);
    let text = spec.gravsoft(rng);
    let m = spec.model();
    h.distinct(hash_str(&text));
    h.class(&format!("faithful/gravsoft-{bands}-band{}", if projected { "-projected" } else { "" }));
    if h.want_sample() && idx % 160 == 0 {
        h.sample(J::obj().set("gravsoft_file_head", text.chars().take(240).collect::<String>()).set("rows", spec.rows).set("cols", spec.cols).set("bands", bands));
    }
    let g = match BaseGrid::gravsoft(text.as_bytes()) {
        Ok(g) => g,
        Err(e) => {
            v(h, idx, "well-formed-gravsoft-grid-rejected", J::obj().set("error", format!("{e}")).set("file", text.chars().take(800).collect::<String>()));
            return;
        }
    };
    if g.bands() != bands {
        v(h, idx, "gravsoft/band-count", J::obj().set("written", bands).set("decoded", g.bands()));
        return;
    }
    // every node, through the public lookup
    for r in 0..spec.rows {
        for c in 0..spec.cols {
            let (lon, lat) = m.node_pos(r, c);
            h.eval(1);
            let Some(got) = g.at(&Coor4D([lon, lat, 0.0, 0.0]), 0.5) else {
                v(h, idx, "gravsoft/node-outside-decoded-grid", J::obj().set("row", r).set("col", c).set("file", text.chars().take(400).collect::<String>()));
                return;
            };
            for b in 0..bands {
                let want = m.node(r, c, b);
                let nb = m.corners(lon, lat, b).iter().fold(0.0f64, |a, x| a.max(x.abs()));
                if !((got[b] - want).abs() <= 2.0 * f32_ulp(nb) + 1e-300) {
                    v(
                        h,
                        idx,
                        &format!("gravsoft/node-value-differs/{bands}-band"),
                        J::obj().set("row", r).set("col", c).set("band", b).set("decoded", got[b]).set("written_after_conventions", want).set("file", text.chars().take(400).collect::<String>()),
                    );
                    return;
                }
            }
        }
    }
    // geometry: just outside the half-cell margin there is nothing
    let out = Coor4D([m.lon_e + 0.6 * m.dlon, m.lat_n, 0.0, 0.0]);
    if g.at(&out, 0.5).is_some() || g.at(&Coor4D([m.lon_w, m.lat_s - 0.6 * m.dlat, 0.0, 0.0]), 0.5).is_some() {
        v(h, idx, "gravsoft/decoded-extent-too-large", J::obj().set("file", text.chars().take(400).collect::<String>()));
    }
}

fn random_tree(rng: &mut Rng) -> Vec<SubGrid> {
    let n = 1 + rng.below(6);
    let lat_s = rng.int(-60, 40) as f64;
    let lon_w = rng.int(-170, 100) as f64;
    let rows = 5 + rng.below(5);
    let mut subs = vec![SubGrid::random(rng, "ROOT", "NONE", lat_s, lon_w, 1.0, rows, 2 * n + 3)];
    // children one degree wide: apart from each other, or side by side with shared meridians
    let adjacent = rng.chance(0.5);
    for k in 1..n {
        let c0 = if adjacent { k } else { 2 * k - 1 };
        subs.push(SubGrid::random(rng, &format!("SUB{k}"), "ROOT", lat_s + 1.0, lon_w + c0 as f64, 0.25, 5, 5));
    }
    if rng.chance(0.4) {
        // cells that are not square: every longitude stretched about the root's west border
        // (LONG_INC twice, one and a half times or half of LAT_INC; the structure stays the same)
        let f = *rng.pick(&[2.0, 0.5, 1.5]);
        for s in subs.iter_mut() {
            s.lon_w = lon_w + f * (s.lon_w - lon_w);
            s.dlon *= f;
            s.lon_e = s.lon_w + s.dlon * (s.cols - 1) as f64;
        }
    }
    subs
}

fn faithful_ntv2(h: &H, idx: u64, rng: &mut Rng) {
    let subs = random_tree(rng);
    let mut order: Vec<usize> = (0..subs.len()).collect();
    rng.shuffle(&mut order);
    let file_order: Vec<SubGrid> = order.iter().map(|i| subs[*i].clone()).collect();
    let be = rng.chance(0.5);
    let bytes = gridgen::ntv2(&file_order, be);
    h.distinct(mix(idx, bytes.len() as u64));
    h.class(&format!("faithful/ntv2-{}-subgrids-{}", subs.len(), if be { "be" } else { "le" }));
    if h.want_sample() && idx % 160 == 1 {
        h.sample(J::obj().set("ntv2_subgrids", J::Arr(file_order.iter().map(|s| J::s(format!("{} parent {} {}x{}", s.name, s.parent, s.rows, s.cols))).collect())).set("big_endian", be).set("bytes", bytes.len()));
    }
    let g = match Ntv2Grid::new(&bytes) {
        Ok(g) => g,
        Err(e) => {
            v(h, idx, "well-formed-ntv2-file-rejected", J::obj().set("error", format!("{e}")).set("subgrids", subs.len()).set("big_endian", be));
            return;
        }
    };
    // the same grid in the other byte order decodes to the same values
    let other = Ntv2Grid::new(&gridgen::ntv2(&file_order, !be));
    for s in &subs {
        let m = s.model();
        // interior nodes of each sub grid that are not covered by a child
        for r in 1..s.rows - 1 {
            for c in 1..s.cols - 1 {
                let (lon, lat) = m.node_pos(r, c);
                let covered = subs.iter().any(|o| o.parent == s.name && {
                    let om = o.model();
                    lon >= om.lon_w - 1e-9 && lon <= om.lon_e + 1e-9 && lat >= om.lat_s - 1e-9 && lat <= om.lat_n + 1e-9
                });
                if covered {
                    continue;
                }
                h.eval(1);
                let q = Coor4D([lon, lat, 0.0, 0.0]);
                let Some(got) = g.at(&q, 0.0) else {
                    v(h, idx, "ntv2/node-outside-decoded-grid", J::obj().set("subgrid", &s.name).set("row", r).set("col", c));
                    return;
                };
                for b in 0..2 {
                    let want = m.node(r, c, b);
                    if !((got[b] - want).abs() <= 4.0 * f32_ulp(want.abs().max(1e-7))) {
                        v(
                            h,
                            idx,
                            &format!("ntv2/node-value-differs/{}", if be { "be" } else { "le" }),
                            J::obj().set("subgrid", &s.name).set("row", r).set("col", c).set("band", b).set("decoded", got[b]).set("written_after_conventions", want),
                        );
                        return;
                    }
                }
                if let Ok(o) = &other {
                    let same = o.at(&q, 0.0).map(|x| x.0) == Some(got.0);
                    if !same {
                        v(h, idx, "ntv2/byte-orders-decode-differently", J::obj().set("subgrid", &s.name).set("row", r).set("col", c));
                        return;
                    }
                }
            }
        }
    }
    // the lower (south and west) borders of a child belong to the child, also where a sibling's
    // upper border runs along them
    for s in subs.iter().filter(|s| s.parent != "NONE") {
        let m = s.model();
        for r in 1..s.rows - 1 {
            let (lon, lat) = m.node_pos(r, 0);
            h.eval(1);
            let Some(got) = g.at(&Coor4D([lon, lat, 0.0, 0.0]), 0.0) else { continue };
            for b in 0..2 {
                let want = m.node(r, 0, b);
                if !((got[b] - want).abs() <= 4.0 * f32_ulp(want.abs().max(1e-7))) {
                    v(
                        h,
                        idx,
                        "ntv2/node-on-the-west-border-of-a-child-not-taken-from-the-child",
                        J::obj().set("subgrid", &s.name).set("row", r).set("band", b).set("decoded", got[b]).set("written_after_conventions", want).set("file_order", J::Arr(file_order.iter().map(|x| J::s(x.name.clone())).collect())),
                    );
                    return;
                }
            }
        }
        h.class("faithful/ntv2-child-border-nodes");
    }
    if other.is_err() {
        v(h, idx, "well-formed-ntv2-file-rejected", J::obj().set("big_endian", !be));
    }
}

/// The binary and the ASCII rendering of the shipped NTv2 grids decode to the same values
fn gsb_vs_gsa(h: &H, idx: u64) {
    for stem in ["5458", "5458_with_subgrid"] {
        let (Some(gsb), Some(gsa)) = (shipped(&format!("gsb/{stem}.gsb")), shipped(&format!("gsb/{stem}.gsa"))) else {
            h.note("shipped gsb/gsa pair not found");
            return;
        };
        let Ok(g) = Ntv2Grid::new(&gsb) else {
            v(h, idx, "shipped-gsb-rejected", J::s(stem));
            return;
        };
        // a plain reading of the .gsa text: "KEY value" header lines, then GS_COUNT lines of
        // "lat_shift lon_shift acc acc" per sub grid, from the south-east corner
        let text = String::from_utf8_lossy(&gsa).to_string();
        let mut lines = text.lines().map(|l| l.trim()).filter(|l| !l.is_empty()).peekable();
        let mut subs: Vec<SubGrid> = Vec::new();
        while let Some(l) = lines.next() {
            if !l.starts_with("SUB_NAME") {
                continue;
            }
            let mut kv = std::collections::BTreeMap::new();
            kv.insert("SUB_NAME".to_string(), l[8..].trim().to_string());
            for _ in 0..10 {
                let Some(x) = lines.next() else { break };
                let (k, val) = x.split_at(8.min(x.len()));
                kv.insert(k.trim().to_string(), val.trim().to_string());
            }
            let f = |k: &str| kv.get(k).and_then(|x| x.parse::<f64>().ok()).unwrap_or(f64::NAN);
            let count = f("GS_COUNT") as usize;
            let (s_lat, n_lat, e_lon, w_lon, dlat, dlon) = (f("S_LAT"), f("N_LAT"), f("E_LONG"), f("W_LONG"), f("LAT_INC"), f("LONG_INC"));
            let rows = ((n_lat - s_lat) / dlat).round() as usize + 1;
            let cols = ((w_lon - e_lon) / dlon).round() as usize + 1;
            let mut file_nodes = Vec::new();
            for _ in 0..count {
                let Some(x) = lines.next() else { break };
                let nums: Vec<f32> = x.split_whitespace().filter_map(|t| t.parse::<f32>().ok()).collect();
                if nums.len() >= 2 {
                    file_nodes.push((nums[0], nums[1]));
                }
            }
            if file_nodes.len() != rows * cols {
                h.note(&format!("gsa reader: {stem}: node count {} does not match {rows}x{cols}", file_nodes.len()));
                return;
            }
            // file order: from the SE corner westwards, rows northwards; shifts: lon positive west
            let mut shifts = vec![(0f32, 0f32); rows * cols];
            for (k, (la, lo)) in file_nodes.iter().enumerate() {
                let r_from_south = k / cols;
                let c_from_east = k % cols;
                let r = rows - 1 - r_from_south;
                let c = cols - 1 - c_from_east;
                shifts[r * cols + c] = (*la, -*lo);
            }
            subs.push(SubGrid {
                name: kv["SUB_NAME"].clone(),
                parent: kv.get("PARENT").cloned().unwrap_or_default(),
                lat_s: s_lat / 3600.0,
                lat_n: n_lat / 3600.0,
                lon_w: -w_lon / 3600.0,
                lon_e: -e_lon / 3600.0,
                dlat: dlat / 3600.0,
                dlon: dlon / 3600.0,
                rows,
                cols,
                shifts,
            });
        }
        if subs.is_empty() {
            h.note("gsa reader found no sub grids");
            return;
        }
        h.class("faithful/shipped-gsb-vs-gsa");
        h.distinct(hash_str(stem));
        for s in &subs {
            let m = s.model();
            for r in 1..s.rows.saturating_sub(1) {
                for c in 1..s.cols.saturating_sub(1) {
                    let (lon, lat) = m.node_pos(r, c);
                    let covered = subs.iter().any(|o| o.parent == s.name && {
                        let om = o.model();
                        lon >= om.lon_w - 1e-9 && lon <= om.lon_e + 1e-9 && lat >= om.lat_s - 1e-9 && lat <= om.lat_n + 1e-9
                    });
                    if covered {
                        continue;
                    }
                    h.eval(1);
                    let Some(got) = g.at(&Coor4D([lon, lat, 0.0, 0.0]), 0.0) else { continue };
                    for b in 0..2 {
                        let want = m.node(r, c, b);
                        if !((got[b] - want).abs() <= 4.0 * f32_ulp(want.abs().max(1e-7))) {
                            v(h, idx, "shipped-gsb-differs-from-its-gsa-twin", J::obj().set("file", stem).set("subgrid", &s.name).set("row", r).set("col", c).set("band", b).set("binary", got[b]).set("ascii", want));
                            return;
                        }
                    }
                }
            }
        }
    }
}

/// Random and structured damage of shipped and generated files
fn damage(h: &H, idx: u64, rng: &mut Rng) {
    // pick a victim
    let gsb = rng.chance(0.5);
    let (mut data, origin): (Vec<u8>, String) = if rng.chance(0.4) {
        let candidates: Vec<&str> = SHIPPED.iter().filter(|n| n.ends_with(".gsb") == gsb && !n.ends_with(".gsa")).copied().collect();
        let name = *rng.pick(&candidates);
        match shipped(name) {
            Some(b) => (b, name.to_string()),
            None => return,
        }
    } else if gsb {
        let subs = random_tree(rng);
        (gridgen::ntv2(&subs, rng.chance(0.5)), format!("generated ntv2 with {} sub grids", subs.len()))
    } else {
        let bands = 1 + rng.below(3);
        let s = GridSpec::random(rng, bands, false);
        (s.gravsoft(rng).into_bytes(), format!("generated gravsoft {}x{}x{}", s.rows, s.cols, s.bands))
    };
    // the big deformation model only now and then (it takes tens of milliseconds to parse)
    if !gsb && rng.chance(if h.quick() { 0.01 } else { 0.03 }) {
        if let Some(b) = shipped("deformation/eur_nkg_nkgrf17vel.deformation") {
            data = b;
        }
    }
    let kind = rng.below(12);
    let what;
    match kind {
        0 | 1 => {
            let at = rng.below(data.len() + 1);
            data.truncate(at);
            what = format!("{origin}: truncated to {at} bytes");
        }
        2 | 3 => {
            let n = 1 + rng.below(8);
            for _ in 0..n {
                if data.is_empty() {
                    break;
                }
                let at = rng.below(data.len());
                data[at] = rng.u64() as u8;
            }
            what = format!("{origin}: {n} random bytes overwritten");
        }
        4 => {
            // splice: a block copied over another place
            if data.len() > 64 {
                let len = 1 + rng.below(64);
                let from = rng.below(data.len() - len);
                let to = rng.below(data.len() - len);
                let piece = data[from..from + len].to_vec();
                data[to..to + len].copy_from_slice(&piece);
            }
            what = format!("{origin}: block spliced");
        }
        5 if gsb => {
            // structured: header fields of a sub grid replaced by hostile numbers
            let field = *rng.pick(&[72usize, 88, 104, 120, 136, 152]);
            let at = 176 + field + 8 - 8;
            let val = *rng.pick(&[0.0, -1.0, f64::NAN, f64::INFINITY, 1e300, -1e300, 1e-300, 3600.0 * 1e6]);
            if data.len() > at + 8 {
                let big = data.get(8) != Some(&11);
                let bytes = if big { val.to_be_bytes() } else { val.to_le_bytes() };
                data[at..at + 8].copy_from_slice(&bytes);
            }
            what = format!("{origin}: sub grid header field at +{field} set to {val}");
        }
        6 if gsb => {
            // structured: sub grid names and parents
            let subs = random_tree(rng);
            let mut subs2 = subs.clone();
            // (the reserved name gets a larger share: it only shows when a query lands in that grid)
            let variant = if rng.chance(0.25) { 5 } else { rng.below(8) };
            match variant {
                5 => {
                    // the name reserved for "no parent" used as a sub grid name
                    let k = if rng.chance(0.6) { 0 } else { rng.below(subs2.len()) };
                    let old = subs2[k].name.clone();
                    subs2[k].name = "NONE".into();
                    if rng.chance(0.5) {
                        for s in subs2.iter_mut() {
                            if s.parent == old {
                                s.parent = "NONE".into();
                            }
                        }
                    }
                }
                6 => {
                    // a child whose parent is one of its own descendants, next to a healthy root
                    if subs2.len() > 2 {
                        let n2 = subs2[2].name.clone();
                        let n1 = subs2[1].name.clone();
                        subs2[1].parent = n2;
                        subs2[2].parent = n1;
                    }
                }
                7 => {
                    let k = rng.below(subs2.len());
                    subs2[k].name = rng.pick(&["", " ", "NONE    X", "none", "\u{0}\u{0}"]).to_string();
                }
                0 => {
                    for s in subs2.iter_mut() {
                        s.name = "SAME".into();
                    }
                }
                1 => subs2[0].parent = subs2[0].name.clone(),
                2 => subs2[0].parent = "NOPE".into(),
                3 => {
                    if subs2.len() > 1 {
                        let n0 = subs2[0].name.clone();
                        subs2[1].parent = n0.clone();
                        subs2[0].parent = subs2[1].name.clone();
                    }
                }
                _ => {
                    if subs2.len() > 1 {
                        subs2[1].name = subs2[0].name.clone();
                    }
                }
            }
            data = gridgen::ntv2(&subs2, rng.chance(0.5));
            what = format!("generated ntv2, structural damage variant {variant}: {:?}", subs2.iter().map(|s| format!("{}<-{}", s.name, s.parent)).collect::<Vec<_>>());
        }
        7 if gsb => {
            // NUM_FILE larger / smaller than the data, GS_COUNT mismatch
            let big = data.get(8) != Some(&11);
            let val: u32 = *rng.pick(&[0, 1, 2, 7, 1000, u32::MAX, 0x7fff_ffff]);
            let at = if rng.chance(0.5) { 40 } else { 176 + 168 };
            if data.len() > at + 4 {
                let b = if big { val.to_be_bytes() } else { val.to_le_bytes() };
                data[at..at + 4].copy_from_slice(&b);
            }
            what = format!("{origin}: count field at {at} set to {val}");
        }
        8 if !gsb => {
            // structured gravsoft damage: degenerate headers
            let heads = [
                "0 0 0 0 1 1\n1 2 3\n",
                "1 1 5 9 1 1\n1 2 3 4 5\n",
                "54 58 8 8 1 1\n1 2 3 4 5\n",
                "54 58 8 16 0 0\n1 2 3\n",
                "54 58 8 16 -1 1\n1 2 3\n",
                "58 54 16 8 1 1\n1 2 3\n",
                "54 58 8 16 nan 1\n1 2 3\n",
                "54 58 8 16 1e-300 1e-300\n1 2 3\n",
                "54 58 8 16 1e300 1\n1 2\n",
                "-1e300 1e300 -1e300 1e300 1 1\n1\n",
                "54 58 8 16 1 1\n",
                "54 58 8\n",
                "",
                "#\n#\n",
                "54 58 8 16 1 1\n1 x 3 y\n",
                "54 55 8 9 1 1\n1 2 3 4 5 6 7 8 9 10 11 12 13 14 15 16\n",
                "54 55 8 9 1 1\n1 2 3 4 5\n",
                "54 55 8 9 inf inf\n1 2 3 4\n",
            ];
            data = rng.pick(&heads).as_bytes().to_vec();
            what = format!("degenerate gravsoft file {:?}", String::from_utf8_lossy(&data));
        }
        9 => {
            data.clear();
            what = format!("{origin}: empty file");
        }
        10 => {
            // the wrong decoder for the file
            what = format!("{origin}: given to the other decoder");
            h.guard(idx, &what, || decode_and_query(h, idx, &data, !gsb, &what, rng));
            h.class("damage/wrong-decoder");
            return;
        }
        _ => {
            let n = 1 + rng.below(3);
            for _ in 0..n {
                if data.is_empty() {
                    break;
                }
                let at = rng.below(data.len());
                data[at] ^= 1 << rng.below(8);
            }
            what = format!("{origin}: {n} bits flipped");
        }
    }
    h.distinct(mix(idx, crate::rng::fnv(&what)));
    h.class(&format!("damage/kind-{kind}-{}", if gsb { "ntv2" } else { "gravsoft" }));
    if h.want_sample() && idx % 200 == 7 {
        h.sample(J::obj().set("damage", &what).set("bytes", data.len()));
    }
    h.guard(idx, &what, || decode_and_query(h, idx, &data, gsb, &what, rng));
}
