//! C08 - grid lookup is bilinear, first-hit among grids, finest sub-grid within a file, with the
//! documented band/sign/unit conventions.  Executable model (harness bilinear interpolation on
//! harness-built grids) against `Grid::at`, `grids_at` and the grid operators.

use crate::gridgen::{self, GridCtx, GridSpec, Model, SubGrid, D2R};
use crate::harness::{hash_f64s, H};
use crate::json::J;
use crate::rng::{mix, Rng};
use crate::util::*;
use geodesy::authoring::*;
use std::sync::Arc;

fn v(h: &H, idx: u64, sig: &str, d: J) {
    h.violation(idx, &format!("C08/{sig}"), d);
}

pub fn run(h: &H) {
    let n = h.budget(4_000, 400_000);
    for idx in h.cases(n) {
        let mut rng = h.rng(idx);
        match idx % 8 {
            0..=2 => {
                h.guard(idx, "single grid: bilinear lookup", || single_grid(h, idx, &mut rng));
            }
            3 => {
                h.guard(idx, "grid lists", || grid_lists(h, idx, &mut rng));
            }
            4 | 5 => {
                h.guard(idx, "NTv2 hierarchies", || ntv2_tree(h, idx, &mut rng));
            }
            6 => {
                h.guard(idx, "grid operators", || operators(h, idx, &mut rng));
            }
            _ => {
                h.guard(idx, "grid operators over overlapping grid lists", || operator_lists(h, idx, &mut rng));
            }
        }
    }
}

/// gridshift and deformation over lists of two or three overlapping grids (with @optional and
/// @null entries): the operator must use the first grid containing the point, then the first one
/// within the half-cell margin, in both directions
fn operator_lists(h: &H, idx: u64, rng: &mut Rng) {
    let bands = 1 + rng.below(3);
    let n = 2 + rng.below(2);
    let base = loop {
        let s = GridSpec::random(rng, bands, false);
        // deformation looks the grid up at atan2 longitudes and geographic latitudes
        if s.lon_e < 170.0 && s.lon_w > -170.0 && s.lat_n < 80.0 && s.lat_s > -80.0 {
            break s;
        }
    };
    let mut ctx = GridCtx::new();
    let mut models = Vec::new();
    let mut names = Vec::new();
    let ext = ["geoid", "datum", "deformation"][bands - 1];
    for k in 0..n {
        let mut s = if k == 0 { base.clone() } else { GridSpec::random(rng, bands, false) };
        if k > 0 {
            s.dlat = base.dlat;
            s.dlon = base.dlon;
            // shifted by whole and half cells: the margins of one grid reach into the other
            s.lat_s = base.lat_s + base.dlat * 0.5 * rng.int(-5, 5) as f64;
            s.lon_w = base.lon_w + base.dlon * 0.5 * rng.int(-5, 5) as f64;
            s.lat_n = s.lat_s + s.dlat * (s.rows - 1) as f64;
            s.lon_e = s.lon_w + s.dlon * (s.cols - 1) as f64;
            for x in s.values.iter_mut() {
                *x += 100.0 * k as f32;
            }
            if !(s.lon_e < 175.0 && s.lon_w > -175.0 && s.lat_n < 85.0 && s.lat_s > -85.0) {
                // (the harness's own limit: keep the whole list clear of the date line and the poles)
                return;
            }
        }
        let Some((g, _)) = build(h, idx, &s, rng) else { return };
        let name = format!("g{k}.{ext}");
        ctx.grids.insert(name.clone(), Arc::new(g));
        names.push(name);
        models.push(s.model());
    }
    let null = rng.chance(0.35);
    // the null grid ends the list wherever it stands: grids named after it are never consulted
    let null_at = if null { if rng.chance(0.6) { n } else { rng.below(n + 1) } } else { n };
    let mut list: Vec<String> = Vec::new();
    for (k, name) in names.iter().enumerate() {
        if null && k == null_at {
            list.push("@null".into());
        }
        if rng.chance(0.2) {
            list.push(format!("@missing{k}.{ext}"));
        }
        list.push(if rng.chance(0.3) { format!("@{name}") } else { name.clone() });
    }
    if null && null_at == n {
        list.push("@null".into());
    }
    // query points are drawn around all grids, the expectation looks at the consulted ones only
    let all_models = models.clone();
    let models: Vec<_> = models.into_iter().take(null_at).collect();
    let dt = rng.short_decimal(1.0, 30.0, 1);
    let def = match bands {
        3 => format!("deformation grids={} dt={}", list.join(","), num(dt)),
        _ => format!("gridshift grids={}", list.join(",")),
    };
    let op = match ctx.op(&def) {
        Ok(op) => op,
        Err(e) => {
            v(h, idx, "operator-list/instantiation", J::obj().set("definition", &def).set("error", format!("{e}")));
            return;
        }
    };
    h.distinct(mix(idx, 78));
    let e = Ellipsoid::default();
    for _ in 0..24 {
        let m0 = &all_models[rng.below(n)];
        // inside, in the margin band, or outside
        let (fx, fy) = (rng.range(-0.3, 1.3), rng.range(-0.3, 1.3));
        let (mut lon, mut lat) = (m0.lon_w + fx * (m0.lon_e - m0.lon_w), m0.lat_s + fy * (m0.lat_n - m0.lat_s));
        if rng.chance(0.4) {
            // within the margin band of one edge
            let mg = rng.range(0.0, 0.6);
            match rng.below(4) {
                0 => lat = m0.lat_s - mg * m0.dlat,
                1 => lat = m0.lat_n + mg * m0.dlat,
                2 => lon = m0.lon_w - mg * m0.dlon,
                _ => lon = m0.lon_e + mg * m0.dlon,
            }
        }
        // rounding at an edge of an area decides the selection: not the monitor's business
        let near_edge = models.iter().any(|m| {
            let eps = 1e-7 * (m.dlat + m.dlon);
            [0.0, 0.5].iter().any(|mg| {
                (lat - (m.lat_s - mg * m.dlat)).abs() < eps || (lat - (m.lat_n + mg * m.dlat)).abs() < eps || (lon - (m.lon_w - mg * m.dlon)).abs() < eps || (lon - (m.lon_e + mg * m.dlon)).abs() < eps
            })
        });
        if near_edge || lon.abs() >= 179.0 * D2R || lat.abs() >= 89.0 * D2R {
            continue;
        }
        let mut want = None;
        let mut which = String::from("none");
        'outer: for margin in [0.0, 0.5] {
            for (k, m) in models.iter().enumerate() {
                if let Some(x) = m.at(lon, lat, margin) {
                    want = Some(x);
                    which = format!("grid-{k}-{}", if margin == 0.0 { "inside" } else { "margin" });
                    break 'outer;
                }
            }
        }
        let height = rng.range(0.0, 300.0);
        let p: [f64; 4] = if bands == 3 {
            let c = e.cartesian(&Coor4D([lon, lat, height, 0.0]));
            [c[0], c[1], c[2], 2010.0]
        } else {
            [lon, lat, height, 2010.0]
        };
        for d in [D::F, D::I] {
            // the inverse datum shift iterates: only the forward direction has a closed form
            if bands == 2 && d == D::I {
                continue;
            }
            let (r, c) = apply1(&ctx, op, d, p);
            h.eval(1);
            let sgn = if d == D::F { 1.0 } else { -1.0 };
            let detail = |what: &str| {
                J::obj()
                    .set("what", what)
                    .set("definition", &def)
                    .set("direction", d.name())
                    .set("query_lon_lat", J::coords(&[lon, lat]))
                    .set("input", J::coords(&p))
                    .set("output", J::coords(&r))
                    .set("count", c)
                    .set("model_selection", &which)
                    .set("model_value", match &want { Some(w) => J::coords(w), None => J::Null })
                    .set("grids_lat_s_lat_n_lon_w_lon_e", J::Arr(models.iter().map(|m| J::coords(&[m.lat_s, m.lat_n, m.lon_w, m.lon_e])).collect()))
            };
            match &want {
                None => {
                    h.class(&format!("operator-list/{ext}/outside/{}", if null { "with-null" } else { "without-null" }));
                    let ok = if null { c == 1 && same_bits(&r, &p) } else { c == 0 && r.iter().any(|x| x.is_nan()) };
                    if !ok {
                        v(h, idx, &format!("operator-list/{ext}/outside-all-grids/{}", if null { "with-null" } else { "without-null" }), detail("outside every grid and margin"));
                        return;
                    }
                }
                Some(w) => {
                    h.class(&format!("operator-list/{ext}/{which}"));
                    let ok = match bands {
                        1 => c == 1 && (r[2] - (height - sgn * w[0])).abs() <= 16.0 * f32_ulp(w[0].abs()) + 1e-9 && r[0] == lon && r[1] == lat,
                        2 => {
                            let tol = 16.0 * f32_ulp(w[0].abs().max(w[1].abs()));
                            c == 1 && (r[0] - (lon + w[0])).abs() <= tol && (r[1] - (lat + w[1])).abs() <= tol && r[2] == height
                        }
                        _ => {
                            let (sl, cl) = lon.sin_cos();
                            let (sp, cp) = lat.sin_cos();
                            let xyz = [
                                -sl * w[0] - sp * cl * w[1] + cp * cl * w[2],
                                cl * w[0] - sp * sl * w[1] + cp * sl * w[2],
                                cp * w[1] + sp * w[2],
                            ];
                            let tol = 1e-5 * dt * (w[0].abs() + w[1].abs() + w[2].abs()) + 1e-7;
                            c == 1 && (0..3).all(|k| (r[k] - (p[k] - sgn * dt * xyz[k])).abs() <= tol)
                        }
                    };
                    if !ok {
                        v(h, idx, &format!("operator-list/{ext}/selection-or-value/{}", d.name()), detail("the operator did not use the first grid containing the point, then the first within the margin"));
                        return;
                    }
                }
            }
        }
    }
}

fn f32_ulp(x: f64) -> f64 {
    let a = (x.abs() as f32).max(f32::MIN_POSITIVE);
    (f32::from_bits(a.to_bits() + 1) - a) as f64
}

/// Compare a library lookup with the model at one point
#[allow(clippy::too_many_arguments)]
fn compare(h: &H, idx: u64, what: &str, g: &dyn Grid, m: &Model, lon: f64, lat: f64, margin: f64, spec: &str) -> bool {
    let got = g.at(&Coor4D([lon, lat, 0.0, 0.0]), margin);
    let want = m.at(lon, lat, margin);
    h.eval(1);
    let detail = || {
        J::obj()
            .set("grid", spec)
            .set("query_lon_lat", J::coords(&[lon, lat]))
            .set("margin", margin)
            .set("library", match &got { Some(c) => J::coords(&c.0), None => J::Null })
            .set("model", match &want { Some(c) => J::coords(c), None => J::Null })
    };
    match (&got, &want) {
        (None, None) => true,
        (Some(_), None) | (None, Some(_)) => {
            // on the very edge of the (margin extended) area rounding decides: tolerate
            let eps = 1e-9 * (m.dlat.abs() + m.dlon.abs());
            let near_edge = [m.lat_s - margin * m.dlat, m.lat_n + margin * m.dlat].iter().any(|e| (lat - e).abs() <= eps)
                || [m.lon_w - margin * m.dlon, m.lon_e + margin * m.dlon].iter().any(|e| (lon - e).abs() <= eps);
            if near_edge {
                return true;
            }
            v(h, idx, &format!("{what}/coverage-differs"), detail());
            false
        }
        (Some(g4), Some(w4)) => {
            for b in 0..m.bands {
                let scale = m.corners(lon, lat, b).iter().fold(0.0f64, |a, x| a.max(x.abs()));
                // extrapolation in the margin amplifies the f32 rounding of the nodes
                let tol = 4.0 * f32_ulp(scale) * (1.0 + 2.0 * margin) + 1e-300;
                if !((g4[b] - w4[b]).abs() <= tol) {
                    v(h, idx, &format!("{what}/value-differs"), detail().set("band", b).set("tolerance", tol));
                    return false;
                }
            }
            for b in m.bands..4 {
                if g4[b] != 0.0 {
                    v(h, idx, &format!("{what}/unused-band-not-zero"), detail().set("band", b));
                    return false;
                }
            }
            true
        }
    }
}

fn build(h: &H, idx: u64, spec: &GridSpec, rng: &mut Rng) -> Option<(BaseGrid, String)> {
    let text = spec.gravsoft(rng);
    match BaseGrid::gravsoft(text.as_bytes()) {
        Ok(g) => Some((g, text)),
        Err(e) => {
            v(h, idx, "well-formed-gravsoft-grid-rejected", J::obj().set("error", format!("{e}")).set("file", text.chars().take(600).collect::<String>()));
            None
        }
    }
}

fn single_grid(h: &H, idx: u64, rng: &mut Rng) {
    let bands = 1 + rng.below(3);
    let projected = bands == 1 && rng.chance(0.2);
    let spec = GridSpec::random(rng, bands, projected);
    let m = spec.model();
    let Some((g, text)) = build(h, idx, &spec, rng) else { return };
    let label = format!("{} bands, {}x{}, lat {}..{} lon {}..{} step {} {}", bands, spec.rows, spec.cols, spec.lat_s, spec.lat_n, spec.lon_w, spec.lon_e, spec.dlat, spec.dlon);
    h.class(&format!("single/{}-band{}", bands, if projected { "-projected" } else { "" }));
    h.distinct(hash_f64s(&[spec.lat_s, spec.lon_w, spec.dlat, spec.dlon, spec.rows as f64, spec.cols as f64, spec.values[0] as f64]));
    if h.want_sample() && idx % 97 == 0 {
        h.sample(J::obj().set("grid", &label).set("file_head", text.chars().take(200).collect::<String>()));
    }
    if g.bands() != bands {
        v(h, idx, "band-count", J::obj().set("grid", &label).set("library", g.bands()).set("written", bands));
        return;
    }
    // node reproduction
    for _ in 0..10 {
        let (r, c) = (rng.below(spec.rows), rng.below(spec.cols));
        let (lon, lat) = m.node_pos(r, c);
        if let Some(got) = g.at(&Coor4D([lon, lat, 0.0, 0.0]), 0.0) {
            h.eval(1);
            for b in 0..bands {
                let want = m.node(r, c, b);
                let nb = m.corners(lon, lat, b).iter().fold(0.0f64, |a, x| a.max(x.abs()));
                if !((got[b] - want).abs() <= 2.0 * f32_ulp(nb) + 1e-300) {
                    v(h, idx, "node-not-reproduced", J::obj().set("grid", &label).set("row_col_band", J::coords(&[r as f64, c as f64, b as f64])).set("library", got[b]).set("node", want));
                    return;
                }
            }
        } else if r > 0 && r < spec.rows - 1 && c > 0 && c < spec.cols - 1 {
            v(h, idx, "interior-node-outside-grid", J::obj().set("grid", &label).set("row_col", J::coords(&[r as f64, c as f64])));
            return;
        }
    }
    h.class("node-reproduction");
    // inside cells: model agreement, range of the four corners, continuity across borders
    for _ in 0..20 {
        let lon = m.lon_w + rng.f() * (m.lon_e - m.lon_w);
        let lat = m.lat_s + rng.f() * (m.lat_n - m.lat_s);
        if !compare(h, idx, "inside", &g, &m, lon, lat, 0.0, &label) {
            return;
        }
        if let Some(got) = g.at(&Coor4D([lon, lat, 0.0, 0.0]), 0.0) {
            for b in 0..bands {
                let cs = m.corners(lon, lat, b);
                let lo = cs.iter().cloned().fold(f64::INFINITY, f64::min);
                let hi = cs.iter().cloned().fold(f64::NEG_INFINITY, f64::max);
                let slack = 4.0 * f32_ulp(hi.abs().max(lo.abs()));
                if !(got[b] >= lo - slack && got[b] <= hi + slack) {
                    v(h, idx, "outside-range-of-corners", J::obj().set("grid", &label).set("query", J::coords(&[lon, lat])).set("value", got[b]).set("corners", J::coords(&cs)));
                    return;
                }
            }
        }
    }
    h.class("inside-cells");
    // continuity across an interior cell border
    if spec.cols > 2 && spec.rows > 2 {
        let c = 1 + rng.below(spec.cols - 2);
        let r = 1 + rng.below(spec.rows - 2);
        let (blon, blat) = m.node_pos(r, c);
        let eps_lon = m.dlon * 1e-7;
        let eps_lat = m.dlat * 1e-7;
        let lat = blat - m.dlat * rng.range(0.1, 0.9);
        let lon = blon + m.dlon * rng.range(0.1, 0.9);
        let pairs = [
            ([blon - eps_lon, lat], [blon + eps_lon, lat], "longitude"),
            ([lon, blat - eps_lat], [lon, blat + eps_lat], "latitude"),
        ];
        for (a, b, axis) in pairs {
            let (Some(va), Some(vb)) = (g.at(&Coor4D([a[0], a[1], 0.0, 0.0]), 0.0), g.at(&Coor4D([b[0], b[1], 0.0, 0.0]), 0.0)) else { continue };
            h.eval(2);
            for k in 0..bands {
                let cs = m.corners(a[0], a[1], k);
                let cs2 = m.corners(b[0], b[1], k);
                let spread = cs.iter().chain(cs2.iter()).fold(0.0f64, |acc, x| acc.max(x.abs()));
                // Lipschitz bound: the values change by at most (spread of corner values) per cell
                let bound = 4.0 * spread * 2.0e-7 + 8.0 * f32_ulp(spread);
                if !((va[k] - vb[k]).abs() <= bound) {
                    v(h, idx, &format!("discontinuous-across-cell-border/{axis}"), J::obj().set("grid", &label).set("left", J::coords(&a)).set("right", J::coords(&b)).set("values", J::coords(&[va[k], vb[k]])).set("bound", bound));
                    return;
                }
            }
        }
        h.class("continuity-across-cell-borders");
    }
    // the half-cell margin: linear continuation inside, None beyond
    for _ in 0..12 {
        let side = rng.below(4);
        let t = rng.range(0.02, 0.98);
        let out = rng.range(0.02, 0.48);
        let beyond = rng.range(0.52, 3.0);
        for (dist, expect_some) in [(out, true), (beyond, false)] {
            let (lon, lat) = match side {
                0 => (m.lon_w + t * (m.lon_e - m.lon_w), m.lat_n + dist * m.dlat),
                1 => (m.lon_w + t * (m.lon_e - m.lon_w), m.lat_s - dist * m.dlat),
                2 => (m.lon_w - dist * m.dlon, m.lat_s + t * (m.lat_n - m.lat_s)),
                _ => (m.lon_e + dist * m.dlon, m.lat_s + t * (m.lat_n - m.lat_s)),
            };
            if !compare(h, idx, "margin", &g, &m, lon, lat, 0.5, &label) {
                return;
            }
            let got0 = g.at(&Coor4D([lon, lat, 0.0, 0.0]), 0.0);
            let got5 = g.at(&Coor4D([lon, lat, 0.0, 0.0]), 0.5);
            h.eval(2);
            if got0.is_some() || got5.is_some() != expect_some {
                v(h, idx, "margin-semantics", J::obj().set("grid", &label).set("query", J::coords(&[lon, lat])).set("cells_outside", dist).set("found_with_margin_0", got0.is_some()).set("found_with_margin_0.5", got5.is_some()));
                return;
            }
            if g.contains(&Coor4D([lon, lat, 0.0, 0.0]), 0.5) != expect_some {
                v(h, idx, "contains-disagrees-with-at", J::obj().set("grid", &label).set("query", J::coords(&[lon, lat])));
                return;
            }
        }
    }
    h.class("margin");
}

fn grid_lists(h: &H, idx: u64, rng: &mut Rng) {
    // two or three overlapping single-band grids with clearly different values
    let n = 2 + rng.below(2);
    let mut specs = Vec::new();
    let base = GridSpec::random(rng, 2, false);
    for k in 0..n {
        let mut s = GridSpec::random(rng, 2, false);
        // overlap the first grid partly
        s.dlat = base.dlat;
        s.dlon = base.dlon;
        s.lat_s = base.lat_s + base.dlat * rng.int(-2, 2) as f64;
        s.lon_w = base.lon_w + base.dlon * rng.int(-2, 2) as f64;
        s.lat_n = s.lat_s + s.dlat * (s.rows - 1) as f64;
        s.lon_e = s.lon_w + s.dlon * (s.cols - 1) as f64;
        for x in s.values.iter_mut() {
            *x += 100.0 * k as f32;
        }
        specs.push(s);
    }
    let mut grids: Vec<Arc<dyn Grid>> = Vec::new();
    let mut models = Vec::new();
    for s in &specs {
        let Some((g, _)) = build(h, idx, s, rng) else { return };
        grids.push(Arc::new(g));
        models.push(s.model());
    }
    h.class(&format!("list/{n}-grids"));
    h.distinct(mix(idx, n as u64));
    for _ in 0..30 {
        let m0 = &models[rng.below(n)];
        let lon = m0.lon_w + rng.range(-0.8, 1.8) * (m0.lon_e - m0.lon_w);
        let lat = m0.lat_s + rng.range(-0.8, 1.8) * (m0.lat_n - m0.lat_s);
        for null in [false, true] {
            let got = grids_at(&grids, &Coor4D([lon, lat, 0.0, 0.0]), null);
            h.eval(1);
            // the first grid containing the point; then the first one within the margin
            let mut want = None;
            'outer: for margin in [0.0, 0.5] {
                for m in &models {
                    if let Some(x) = m.at(lon, lat, margin) {
                        want = Some(x);
                        break 'outer;
                    }
                }
            }
            if want.is_none() && null {
                want = Some([0.0; 4]);
            }
            let ok = match (&got, &want) {
                (None, None) => true,
                (Some(g4), Some(w4)) => (0..2).all(|b| (g4[b] - w4[b]).abs() <= 16.0 * f32_ulp(w4[b].abs().max(1e-6))),
                _ => {
                    // rounding at an edge of the margin extended area
                    models.iter().any(|m| {
                        let e = 1e-9 * (m.dlat + m.dlon);
                        [0.0, 0.5].iter().any(|mg| {
                            (lat - (m.lat_s - mg * m.dlat)).abs() < e || (lat - (m.lat_n + mg * m.dlat)).abs() < e || (lon - (m.lon_w - mg * m.dlon)).abs() < e || (lon - (m.lon_e + mg * m.dlon)).abs() < e
                        })
                    })
                }
            };
            if !ok {
                v(
                    h,
                    idx,
                    &format!("list-selection/{}", if null { "with-null" } else { "without-null" }),
                    J::obj()
                        .set("query_lon_lat", J::coords(&[lon, lat]))
                        .set("library", match &got { Some(c) => J::coords(&c.0), None => J::Null })
                        .set("model", match &want { Some(c) => J::coords(c), None => J::Null })
                        .set("grids", J::Arr(models.iter().map(|m| J::coords(&[m.lat_s, m.lat_n, m.lon_w, m.lon_e])).collect())),
                );
                return;
            }
        }
    }
}

/// A parent with 1-3 non-overlapping children (one of which may have a child of its own)
fn ntv2_tree(h: &H, idx: u64, rng: &mut Rng) {
    let d = 1.0;
    let lat_s = rng.int(-60, 40) as f64;
    let lon_w = rng.int(-170, 100) as f64;
    let (rows, cols) = (6 + rng.below(4), 8 + rng.below(4));
    let mut subs = vec![SubGrid::random(rng, "ROOT", "NONE", lat_s, lon_w, d, rows, cols)];
    // children on the node lattice of the parent, finer spacing
    let nchild = 1 + rng.below(3);
    let mut used: Vec<(usize, usize)> = vec![];
    for k in 0..nchild {
        let c0 = 1 + 2 * k;
        if c0 + 2 > cols - 1 {
            break;
        }
        let r0 = 1 + rng.below(rows - 3);
        used.push((r0, c0));
        let fine = d / 4.0;
        let name = format!("CH{k}");
        subs.push(SubGrid::random(rng, &name, "ROOT", lat_s + r0 as f64 * d, lon_w + c0 as f64 * d, fine, 5, 5));
        if k == 0 && rng.chance(0.5) {
            // a grand child inside the first child
            subs.push(SubGrid::random(rng, "GC0", &name, lat_s + r0 as f64 * d + fine, lon_w + c0 as f64 * d + fine, fine / 2.0, 3, 3));
        }
    }
    // the order of the sub grids in the file is arbitrary
    let mut order: Vec<usize> = (0..subs.len()).collect();
    rng.shuffle(&mut order);
    let file_order: Vec<SubGrid> = order.iter().map(|i| subs[*i].clone()).collect();
    let be = rng.chance(0.5);
    let bytes = gridgen::ntv2(&file_order, be);
    let label = format!("{} sub grids ({}), {}", subs.len(), file_order.iter().map(|s| s.name.clone()).collect::<Vec<_>>().join(","), if be { "big endian" } else { "little endian" });
    let g = match Ntv2Grid::new(&bytes) {
        Ok(g) => g,
        Err(e) => {
            v(h, idx, "well-formed-ntv2-file-rejected", J::obj().set("file", &label).set("error", format!("{e}")));
            return;
        }
    };
    h.class(&format!("ntv2/{}-subgrids/{}", subs.len(), if be { "be" } else { "le" }));
    h.distinct(mix(idx, subs.len() as u64));
    if h.want_sample() && idx % 61 == 4 {
        h.sample(J::obj().set("ntv2", &label));
    }
    let models: Vec<(String, String, Model)> = subs.iter().map(|s| (s.name.clone(), s.parent.clone(), s.model())).collect();
    // the deepest sub grid containing the point, upper borders exclusive
    let strictly_inside = |m: &Model, lon: f64, lat: f64| lon >= m.lon_w && lon < m.lon_e - 2e-6 && lat >= m.lat_s && lat < m.lat_n - 2e-6;
    let near_border = |lon: f64, lat: f64| {
        models.iter().any(|(_, _, m)| [(lon - m.lon_w).abs(), (lon - m.lon_e).abs(), (lat - m.lat_s).abs(), (lat - m.lat_n).abs()].iter().any(|x| *x < 4e-6))
    };
    for _ in 0..40 {
        let root = &models[0].2;
        let (lon, lat) = if rng.chance(0.6) && models.len() > 1 {
            let m = &models[1 + rng.below(models.len() - 1)].2;
            (m.lon_w + rng.range(-0.2, 1.2) * (m.lon_e - m.lon_w), m.lat_s + rng.range(-0.2, 1.2) * (m.lat_n - m.lat_s))
        } else {
            (root.lon_w + rng.range(-0.1, 1.1) * (root.lon_e - root.lon_w), root.lat_s + rng.range(-0.1, 1.1) * (root.lat_n - root.lat_s))
        };
        if near_border(lon, lat) {
            continue;
        }
        // walk down the tree
        let mut chosen: Option<&Model> = None;
        let mut parent = "NONE".to_string();
        loop {
            let next = models.iter().find(|(_, p, m)| *p == parent && strictly_inside(m, lon, lat));
            match next {
                Some((name, _, m)) => {
                    chosen = Some(m);
                    parent = name.clone();
                }
                None => break,
            }
        }
        let got = g.at(&Coor4D([lon, lat, 0.0, 0.0]), 0.0);
        h.eval(1);
        let want = chosen.and_then(|m| m.at(lon, lat, 0.0));
        let ok = match (&got, &want) {
            (None, None) => true,
            (Some(a), Some(b)) => (0..2).all(|k| (a[k] - b[k]).abs() <= 8.0 * f32_ulp(b[k].abs().max(1e-7))),
            _ => false,
        };
        if !ok {
            v(
                h,
                idx,
                "ntv2-sub-grid-selection",
                J::obj()
                    .set("file", &label)
                    .set("query_lon_lat_deg", J::coords(&[lon / D2R, lat / D2R]))
                    .set("library", match &got { Some(c) => J::coords(&c.0), None => J::Null })
                    .set("model_deepest_sub_grid", parent.clone())
                    .set("model", match &want { Some(c) => J::coords(c), None => J::Null }),
            );
            return;
        }
        h.class(if parent == "NONE" { "ntv2/outside" } else if parent == "ROOT" { "ntv2/root" } else { "ntv2/child" });
    }
    let _ = used;
}

/// The operator conventions: gridshift adds 2-band shifts and subtracts 1-band geoid heights
/// forward, the inverse does the opposite; deformation integrates the velocity over the duration
fn operators(h: &H, idx: u64, rng: &mut Rng) {
    let mut ctx = GridCtx::new();
    let s2 = GridSpec::random(rng, 2, false);
    let s1 = GridSpec::random(rng, 1, false);
    // the deformation operator looks the grid up at atan2 longitudes: keep inside (-180, 180)
    let s3 = loop {
        let s = GridSpec::random(rng, 3, false);
        if s.lon_e < 179.0 && s.lon_w > -179.0 && s.lat_n < 89.0 && s.lat_s > -89.0 {
            break s;
        }
    };
    let (Some((g2, _)), Some((g1, _)), Some((g3, _))) = (build(h, idx, &s2, rng), build(h, idx, &s1, rng), build(h, idx, &s3, rng)) else { return };
    ctx.grids.insert("two.datum".into(), Arc::new(g2));
    ctx.grids.insert("one.geoid".into(), Arc::new(g1));
    ctx.grids.insert("three.deformation".into(), Arc::new(g3));
    let (m2, m1, m3) = (s2.model(), s1.model(), s3.model());
    h.distinct(mix(idx, 77));
    let inside = |m: &Model, rng: &mut Rng| (m.lon_w + rng.range(0.1, 0.9) * (m.lon_e - m.lon_w), m.lat_s + rng.range(0.1, 0.9) * (m.lat_n - m.lat_s));

    // ---- datum shift: forward adds ------------------------------------------------------------
    if let Ok(op) = ctx.op("gridshift grids=two.datum") {
        let (lon, lat) = inside(&m2, rng);
        let p = [lon, lat, 17.0, 2001.0];
        let (r, c) = apply1(&ctx, op, D::F, p);
        let w = m2.at(lon, lat, 0.0).unwrap();
        h.eval(1);
        let tol = 8.0 * f32_ulp(w[0].abs().max(w[1].abs()));
        if c != 1 || !((r[0] - (lon + w[0])).abs() <= tol && (r[1] - (lat + w[1])).abs() <= tol) || r[2] != 17.0 || r[3] != 2001.0 {
            v(h, idx, "gridshift/2-band-forward-does-not-add-the-shift", J::obj().set("input", J::coords(&p)).set("output", J::coords(&r)).set("model_shift_lon_lat", J::coords(&w[..2])));
            return;
        }
        // the inverse finds the point whose forward image is the input (asked only where the
        // image and its surroundings, two shift lengths wide, are still covered: with cells of a
        // few arc minutes the shift itself can leave the grid)
        let (b, cb) = apply1(&ctx, op, D::I, r);
        let reach = 2.0 * (w[0].abs() + w[1].abs());
        let covered = [-1.0, 1.0].iter().all(|s| m2.contains(r[0] + s * reach, r[1] + s * reach, 0.0) && m2.contains(r[0] + s * reach, r[1] - s * reach, 0.0));
        if covered && (cb != 1 || !((b[0] - lon).abs() <= 1e-10 && (b[1] - lat).abs() <= 1e-10)) {
            v(h, idx, "gridshift/2-band-inverse", J::obj().set("input", J::coords(&r)).set("output", J::coords(&b)).set("expected", J::coords(&p)));
            return;
        }
        h.class("operator/gridshift-2-band");
    } else {
        v(h, idx, "gridshift/instantiation", J::s("gridshift grids=two.datum"));
    }
    // ---- geoid: forward subtracts ---------------------------------------------------------------
    if let Ok(op) = ctx.op("gridshift grids=one.geoid") {
        let (lon, lat) = inside(&m1, rng);
        let p = [lon, lat, 100.0, 2001.0];
        let (r, c) = apply1(&ctx, op, D::F, p);
        let w = m1.at(lon, lat, 0.0).unwrap();
        h.eval(1);
        let tol = 8.0 * f32_ulp(w[0].abs()) + 1e-12;
        if c != 1 || !((r[2] - (100.0 - w[0])).abs() <= tol) || r[0] != lon || r[1] != lat || r[3] != 2001.0 {
            v(h, idx, "gridshift/1-band-forward-does-not-subtract-the-geoid-height", J::obj().set("input", J::coords(&p)).set("output", J::coords(&r)).set("model_geoid_height", w[0]));
            return;
        }
        let (b, _) = apply1(&ctx, op, D::I, p);
        if !((b[2] - (100.0 + w[0])).abs() <= tol) {
            v(h, idx, "gridshift/1-band-inverse-does-not-add-the-geoid-height", J::obj().set("input", J::coords(&p)).set("output", J::coords(&b)).set("model_geoid_height", w[0]));
            return;
        }
        h.class("operator/gridshift-1-band");
    }
    // ---- list semantics through the operator: @optional, @null ------------------------------------
    if let Ok(op) = ctx.op("gridshift grids=@not.there,two.datum,@null") {
        let far = [m2.lon_e + 10.0 * m2.dlon, m2.lat_n + 10.0 * m2.dlat, 5.0, 6.0];
        let (r, c) = apply1(&ctx, op, D::F, far);
        h.eval(1);
        if c != 1 || !same_bits(&r, &far) {
            v(h, idx, "gridshift/null-grid", J::obj().set("input", J::coords(&far)).set("output", J::coords(&r)).set("count", c));
            return;
        }
        h.class("operator/optional-and-null");
    } else {
        v(h, idx, "gridshift/optional-missing-grid-blocks-instantiation", J::s("gridshift grids=@not.there,two.datum,@null"));
    }
    if ctx.op("gridshift grids=not.there,two.datum").is_ok() {
        v(h, idx, "gridshift/missing-mandatory-grid-accepted", J::s("gridshift grids=not.there,two.datum"));
    }
    // ---- deformation: velocity (e, n, u) m/year times duration, rotated into XYZ ---------------------
    let dt = rng.short_decimal(1.0, 30.0, 1);
    if let Ok(op) = ctx.op(&format!("deformation grids=three.deformation dt={}", num(dt))) {
        let (lon, lat) = inside(&m3, rng);
        let e = Ellipsoid::default();
        let cart = e.cartesian(&Coor4D([lon, lat, 50.0, 0.0]));
        let p = [cart[0], cart[1], cart[2], 2010.0];
        let (r, c) = apply1(&ctx, op, D::F, p);
        let (ri, _) = apply1(&ctx, op, D::I, p);
        let vel = m3.at(lon, lat, 0.0).unwrap();
        h.eval(2);
        // ENU -> XYZ
        let (sl, cl) = lon.sin_cos();
        let (sp, cp) = lat.sin_cos();
        let enu = [vel[0], vel[1], vel[2]];
        let xyz = [
            -sl * enu[0] - sp * cl * enu[1] + cp * cl * enu[2],
            cl * enu[0] - sp * sl * enu[1] + cp * sl * enu[2],
            cp * enu[1] + sp * enu[2],
        ];
        let tol = 1e-6 * dt * (enu[0].abs() + enu[1].abs() + enu[2].abs()) + 1e-7;
        // documented (eq. 3): the forward direction removes the deformation accumulated over dt
        let fwd_ok = (0..3).all(|k| (r[k] - (p[k] - dt * xyz[k])).abs() <= tol);
        let inv_ok = (0..3).all(|k| (ri[k] - (p[k] + dt * xyz[k])).abs() <= tol);
        if c != 1 || !fwd_ok || !inv_ok || r[3] != 2010.0 {
            v(
                h,
                idx,
                "deformation/dt-mode-is-not-minus-dt-times-velocity",
                J::obj()
                    .set("dt", dt)
                    .set("input", J::coords(&p))
                    .set("forward", J::coords(&r))
                    .set("inverse", J::coords(&ri))
                    .set("model_velocity_enu_m_per_year", J::coords(&enu))
                    .set("model_velocity_xyz", J::coords(&xyz)),
            );
            return;
        }
        h.class("operator/deformation-dt");
    }
    // t_epoch mode: the duration is the distance between the tuple's epoch and t_epoch
    let t0 = rng.short_decimal(1990.0, 2020.0, 1);
    if let Ok(op) = ctx.op(&format!("deformation grids=three.deformation t_epoch={}", num(t0))) {
        let (lon, lat) = inside(&m3, rng);
        let e = Ellipsoid::default();
        let t1 = rng.short_decimal(1990.0, 2030.0, 1);
        let cart = e.cartesian(&Coor4D([lon, lat, 50.0, 0.0]));
        let p = [cart[0], cart[1], cart[2], t1];
        let (r, c) = apply1(&ctx, op, D::F, p);
        let (ri, _) = apply1(&ctx, op, D::I, p);
        let vel = m3.at(lon, lat, 0.0).unwrap();
        h.eval(2);
        let speed = (vel[0] * vel[0] + vel[1] * vel[1] + vel[2] * vel[2]).sqrt();
        let moved = ((r[0] - p[0]).powi(2) + (r[1] - p[1]).powi(2) + (r[2] - p[2]).powi(2)).sqrt();
        let want = (t1 - t0).abs() * speed;
        let opposite = (0..3).all(|k| ((r[k] - p[k]) + (ri[k] - p[k])).abs() <= 1e-7);
        if c != 1 || !((moved - want).abs() <= 1e-6 * want + 1e-7) || !opposite {
            v(h, idx, "deformation/t_epoch-duration", J::obj().set("t_epoch", t0).set("tuple_epoch", t1).set("input", J::coords(&p)).set("forward", J::coords(&r)).set("inverse", J::coords(&ri)).set("model_speed", speed));
            return;
        }
        // KNOWN FINDING candidate: the documentation (eq. 3) says the forward direction removes
        // (T1 - T0)·V; the sign actually applied is observed and reported under its own signature
        let sign: f64 = (0..3).map(|k| (r[k] - p[k]) * (t1 - t0)).sum::<f64>();
        let (sl, cl) = lon.sin_cos();
        let (sp, cp) = lat.sin_cos();
        let xyz = [
            -sl * vel[0] - sp * cl * vel[1] + cp * cl * vel[2],
            cl * vel[0] - sp * sl * vel[1] + cp * sl * vel[2],
            cp * vel[1] + sp * vel[2],
        ];
        let along: f64 = (0..3).map(|k| (r[k] - p[k]) * xyz[k]).sum::<f64>() * (t1 - t0);
        let _ = sign;
        if (t1 - t0).abs() > 0.5 && speed > 1e-6 && along > 0.0 {
            v(
                h,
                idx,
                "deformation/t_epoch-mode-forward-adds-the-deformation",
                J::obj()
                    .set("what", "documented: X' = X - (T1 - T0)·V (eq. 3); observed: X' = X + (T1 - T0)·V")
                    .set("t_epoch", t0)
                    .set("tuple_epoch", t1)
                    .set("input", J::coords(&p))
                    .set("forward", J::coords(&r)),
            );
        }
        h.class("operator/deformation-t_epoch");
    }
    // ---- deflection: finite difference of the geoid over one metre ---------------------------------------
    if let Ok(op) = ctx.op("deflection grids=one.geoid") {
        let (lon, lat) = inside(&m1, rng);
        let (r, c) = apply1(&ctx, op, D::F, [lat / D2R, lon / D2R, 0.0, 0.0]);
        h.eval(1);
        let ell = crate::geo::GRS80;
        let dlat = 1.0 / ell.m_rad(lat);
        let dlon = 1.0 / (ell.n_rad(lat) * lat.cos());
        let (Some(o), Some(n), Some(e)) = (m1.at(lon, lat, 0.5), m1.at(lon, lat + dlat, 0.5), m1.at(lon + dlon, lat, 0.5)) else { return };
        let xi = (n[0] - o[0]).atan2(1.0).to_degrees() * 3600.0;
        let eta = (e[0] - o[0]).atan2(1.0).to_degrees() * 3600.0;
        // differences of f32-rounded heights over one metre: a few ulp of the height in arcsec
        let tol = 16.0 * f32_ulp(o[0].abs()).atan().to_degrees() * 3600.0 + 1e-3 * (xi.abs() + eta.abs()) + 1e-6;
        if c != 1 || !((r[0] - xi).abs() <= tol && (r[1] - eta).abs() <= tol) {
            v(h, idx, "deflection/not-the-finite-difference-of-the-geoid", J::obj().set("lat_lon_deg", J::coords(&[lat / D2R, lon / D2R])).set("library_xi_eta_arcsec", J::coords(&r[..2])).set("model_xi_eta_arcsec", J::coords(&[xi, eta])).set("tolerance", tol));
            return;
        }
        h.class("operator/deflection");
    }
}
