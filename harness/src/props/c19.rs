//! C19 - coordinate containers and angular encodings are lossless and consistent.
//! Element-wise definitions and angle formulas evaluated in the harness are the reference.

use crate::geo::ulp;
use crate::harness::{hash_f64s, H};
use crate::json::J;
use crate::rng::Rng;
use crate::util::*;
use geodesy::authoring::*;
use std::f64::consts::PI;

/// A user container that only supplies the required methods: exercises the trait defaults
struct Mine(Vec<[f64; 4]>);
impl CoordinateSet for Mine {
    fn len(&self) -> usize {
        self.0.len()
    }
    fn dim(&self) -> usize {
        4
    }
    fn get_coord(&self, index: usize) -> Coor4D {
        Coor4D(self.0[index])
    }
    fn set_coord(&mut self, index: usize, value: &Coor4D) {
        self.0[index] = value.0;
    }
}

fn v(h: &H, idx: u64, sig: &str, d: J) {
    h.violation(idx, &format!("C19/{sig}"), d);
}

pub fn run(h: &H) {
    let n = h.budget(6_000, 600_000);
    for idx in h.cases(n) {
        let mut rng = h.rng(idx);
        match idx % 4 {
            0 => {
                h.guard(idx, "containers", || containers(h, idx, &mut rng));
            }
            1 => {
                h.guard(idx, "tuples and arithmetic", || tuples(h, idx, &mut rng));
            }
            _ => {
                h.guard(idx, "angular encodings", || angles(h, idx, &mut rng));
            }
        }
    }
    // a fine lattice of [-720, 720] degrees, partitioned over the shards
    let step = if h.quick() { 0.05 } else { 1.0 / 3600.0 };
    let total = (1440.0 / step) as u64;
    let block = 20_000u64;
    for b in h.my_share(total.div_ceil(block)) {
        h.guard((1u64 << 40) + b, &format!("angle lattice block {b}"), || {
            let mut worst: f64 = 0.0;
            for k in (b * block)..((b + 1) * block).min(total + 1) {
                let dd = -720.0 + k as f64 * step;
                if let Some(e) = encodings(h, (1u64 << 40) + b, dd) {
                    worst = worst.max(e);
                } else {
                    return;
                }
            }
            h.max("lattice: encoding round trip (deg)", worst, || format!("block {b}"));
            h.class("angle-lattice-blocks");
        });
    }
}

fn hostile4(rng: &mut Rng) -> [f64; 4] {
    if rng.chance(0.3) {
        [rng.hostile_f64(), rng.hostile_f64(), rng.hostile_f64(), rng.hostile_f64()]
    } else {
        [rng.range(-400.0, 400.0), rng.range(-100.0, 100.0), rng.range(-1e4, 1e4), rng.range(1900.0, 2100.0)]
    }
}

/// Write a tuple, read it back: stored dimensions unchanged, missing ones 0 / NaN or the fixed
/// values of the adapters; bulk accessors agree with get_coord
fn check_set<S: CoordinateSet>(h: &H, idx: u64, label: &str, s: &mut S, val: &[f64; 4], stored: usize, f32_: bool, third: f64, fourth: f64) {
    let n = s.len();
    if n == 0 {
        return;
    }
    let i = n - 1;
    s.set_coord(i, &Coor4D(*val));
    let got = s.get_coord(i).0;
    h.eval(1);
    let mut want = [0.0; 4];
    for k in 0..4 {
        want[k] = if k < stored {
            if f32_ {
                val[k] as f32 as f64
            } else {
                val[k]
            }
        } else if k == 2 {
            third
        } else {
            fourth
        };
    }
    if !same_bits(&got, &want) {
        v(h, idx, &format!("container/{label}/write-read"), J::obj().set("written", J::bits(val)).set("read", J::bits(&got)).set("expected", J::bits(&want)));
        return;
    }
    // bulk accessors
    let (x, y) = s.xy(i);
    let (x3, y3, z3) = s.xyz(i);
    let (x4, y4, z4, t4) = s.xyzt(i);
    let ok = same_bits(&[x, y], &got[..2]) && same_bits(&[x3, y3, z3], &got[..3]) && same_bits(&[x4, y4, z4, t4], &got);
    if !ok {
        v(h, idx, &format!("container/{label}/bulk-read-accessors"), J::obj().set("get_coord", J::bits(&got)).set("xy", J::bits(&[x, y])).set("xyz", J::bits(&[x3, y3, z3])).set("xyzt", J::bits(&[x4, y4, z4, t4])));
        return;
    }
    // set_xy / set_xyz / set_xyzt are the element-wise updates of the stored dimensions
    let a = [val[1], val[0], val[3], val[2]];
    s.set_xy(i, a[0], a[1]);
    let g = s.get_coord(i).0;
    let cast = |x: f64| if f32_ { x as f32 as f64 } else { x };
    let mut w = want;
    w[0] = cast(a[0]);
    w[1] = cast(a[1]);
    if !same_bits(&g, &w) {
        v(h, idx, &format!("container/{label}/set_xy"), J::obj().set("before", J::bits(&want)).set("set_xy", J::bits(&a[..2])).set("after", J::bits(&g)).set("expected", J::bits(&w)));
        return;
    }
    s.set_xyz(i, val[0], val[1], a[2]);
    let g = s.get_coord(i).0;
    let mut w2 = want;
    if stored > 2 {
        w2[2] = cast(a[2]);
    }
    if !same_bits(&g, &w2) {
        v(h, idx, &format!("container/{label}/set_xyz"), J::obj().set("after", J::bits(&g)).set("expected", J::bits(&w2)));
        return;
    }
    s.set_xyzt(i, val[0], val[1], val[2], val[3]);
    let g = s.get_coord(i).0;
    if !same_bits(&g, &want) {
        v(h, idx, &format!("container/{label}/set_xyzt"), J::obj().set("after", J::bits(&g)).set("expected", J::bits(&want)));
        return;
    }
    // stomp fills the stored dimensions with NaN
    s.stomp();
    let g = s.get_coord(0).0;
    if !(0..stored).all(|k| g[k].is_nan()) {
        v(h, idx, &format!("container/{label}/stomp"), J::obj().set("after", J::bits(&g)));
    }
    if s.is_empty() != (s.len() == 0) {
        v(h, idx, &format!("container/{label}/is_empty"), J::Null);
    }
    h.class(&format!("container/{label}"));
}

fn containers(h: &H, idx: u64, rng: &mut Rng) {
    let n = 1 + rng.below(4);
    let val = hostile4(rng);
    h.distinct(hash_f64s(&val));
    if h.want_sample() && idx % 400 == 0 {
        h.sample(J::obj().set("what", "container write/read").set("tuple", J::bits(&val)));
    }
    let hfix = rng.range(-100.0, 900.0);
    let tfix = rng.range(1990.0, 2030.0);
    let nan = f64::NAN;
    let mut v4 = vec![Coor4D([1.0; 4]); n];
    let mut v3 = vec![Coor3D([1.0; 3]); n];
    let mut v2 = vec![Coor2D([1.0; 2]); n];
    let mut v32 = vec![Coor32([1.0; 2]); n];
    check_set(h, idx, "Vec<Coor4D>", &mut v4.clone(), &val, 4, false, 0.0, nan);
    check_set(h, idx, "Vec<Coor3D>", &mut v3.clone(), &val, 3, false, 0.0, nan);
    check_set(h, idx, "Vec<Coor2D>", &mut v2.clone(), &val, 2, false, 0.0, nan);
    check_set(h, idx, "Vec<Coor32>", &mut v32.clone(), &val, 2, true, 0.0, nan);
    check_set(h, idx, "&mut [Coor4D]", &mut &mut v4[..], &val, 4, false, 0.0, nan);
    check_set(h, idx, "&mut [Coor3D]", &mut &mut v3[..], &val, 3, false, 0.0, nan);
    check_set(h, idx, "&mut [Coor2D]", &mut &mut v2[..], &val, 2, false, 0.0, nan);
    check_set(h, idx, "&mut [Coor32]", &mut &mut v32[..], &val, 2, true, 0.0, nan);
    check_set(h, idx, "[Coor4D; 2]", &mut [Coor4D([2.0; 4]); 2], &val, 4, false, 0.0, nan);
    check_set(h, idx, "[Coor3D; 2]", &mut [Coor3D([2.0; 3]); 2], &val, 3, false, 0.0, nan);
    check_set(h, idx, "[Coor2D; 2]", &mut [Coor2D([2.0; 2]); 2], &val, 2, false, 0.0, nan);
    check_set(h, idx, "[Coor32; 2]", &mut [Coor32([2.0; 2]); 2], &val, 2, true, 0.0, nan);
    check_set(h, idx, "(Vec<Coor3D>, t)", &mut (vec![Coor3D([1.0; 3]); n], tfix), &val, 3, false, 0.0, tfix);
    check_set(h, idx, "(Vec<Coor2D>, h, t)", &mut (vec![Coor2D([1.0; 2]); n], hfix, tfix), &val, 2, false, hfix, tfix);
    check_set(h, idx, "(Vec<Coor32>, h, t)", &mut (vec![Coor32([1.0; 2]); n], hfix, tfix), &val, 2, true, hfix, tfix);
    check_set(h, idx, "user container (trait defaults)", &mut Mine(vec![[1.0; 4]; n]), &val, 4, false, 0.0, nan);
}

fn tuple_checks<T: CoordinateTuple + Copy + std::fmt::Debug>(h: &H, idx: u64, label: &str, mk: impl Fn(&[f64; 4]) -> T, dim: usize, f32_: bool, a: &[f64; 4], b: &[f64; 4]) {
    let cast = |x: f64| if f32_ { x as f32 as f64 } else { x };
    let t = mk(a);
    h.eval(1);
    if t.dim() != dim {
        v(h, idx, &format!("tuple/{label}/dim"), J::Int(t.dim() as i64));
    }
    // nth / out of range -> NaN, no crash
    for n in 0..8 {
        let got = t.nth(n);
        let want = if n < dim { cast(a[n]) } else { f64::NAN };
        if canon(got) != canon(want) {
            v(h, idx, &format!("tuple/{label}/nth"), J::obj().set("n", n).set("got", got).set("expected", want));
            return;
        }
    }
    let acc = [t.x(), t.y(), t.z(), t.t()];
    for n in 0..4 {
        let want = if n < dim { cast(a[n]) } else { f64::NAN };
        if canon(acc[n]) != canon(want) {
            v(h, idx, &format!("tuple/{label}/typed-accessor"), J::obj().set("element", n).set("got", acc[n]).set("expected", want));
            return;
        }
    }
    let (x, y) = t.xy();
    let (x3, y3, z3) = t.xyz();
    let (x4, y4, z4, t4) = t.xyzt();
    if !same_bits(&[x, y, x3, y3, z3, x4, y4, z4, t4], &[acc[0], acc[1], acc[0], acc[1], acc[2], acc[0], acc[1], acc[2], acc[3]]) {
        v(h, idx, &format!("tuple/{label}/bulk-accessors"), J::Null);
        return;
    }
    // angular accessors
    let (dx, dy) = t.xy_to_degrees();
    let (rx, ry) = t.xy_to_radians();
    let (sx, sy) = t.xy_to_arcsec();
    let ok = same_bits(&[dx, dy], &[acc[0].to_degrees(), acc[1].to_degrees()])
        && same_bits(&[rx, ry], &[acc[0].to_radians(), acc[1].to_radians()])
        && same_bits(&[sx, sy], &[acc[0].to_degrees() * 3600.0, acc[1].to_degrees() * 3600.0]);
    let (d3x, d3y, d3z) = t.xyz_to_degrees();
    let (d4x, d4y, d4z, d4t) = t.xyzt_to_degrees();
    let (r4x, r4y, r4z, r4t) = t.xyzt_to_radians();
    let (s4x, s4y, s4z, s4t) = t.xyzt_to_arcsec();
    let ok = ok
        && same_bits(&[d3x, d3y, d3z], &[dx, dy, acc[2]])
        && same_bits(&[d4x, d4y, d4z, d4t], &[dx, dy, acc[2], acc[3]])
        && same_bits(&[r4x, r4y, r4z, r4t], &[rx, ry, acc[2], acc[3]])
        && same_bits(&[s4x, s4y, s4z, s4t], &[sx, sy, acc[2], acc[3]]);
    if !ok {
        v(h, idx, &format!("tuple/{label}/angular-accessors"), J::obj().set("tuple", J::bits(&acc)));
        return;
    }
    // set_nth in range sets that element only, out of range fills with NaN
    for n in 0..6 {
        let mut u = t;
        u.set_nth(n, b[0]);
        for k in 0..dim {
            let want = if n >= dim {
                f64::NAN
            } else if k == n {
                cast(b[0])
            } else {
                cast(a[k])
            };
            if canon(u.nth(k)) != canon(want) {
                v(h, idx, &format!("tuple/{label}/set_nth"), J::obj().set("n", n).set("element", k).set("got", u.nth(k)).set("expected", want));
                return;
            }
        }
    }
    // update with slices of every length, fill
    for len in 0..6 {
        let mut u = t;
        let src: Vec<f64> = (0..len).map(|k| b[k % 4] + k as f64).collect();
        u.update(&src);
        for k in 0..dim {
            let want = if k < len { cast(src[k]) } else { cast(a[k]) };
            if canon(u.nth(k)) != canon(want) {
                v(h, idx, &format!("tuple/{label}/update"), J::obj().set("slice_length", len).set("element", k).set("got", u.nth(k)).set("expected", want));
                return;
            }
        }
    }
    let mut u = t;
    u.fill(b[1]);
    if !(0..dim).all(|k| canon(u.nth(k)) == canon(cast(b[1]))) {
        v(h, idx, &format!("tuple/{label}/fill"), J::Null);
    }
    let fresh = T::new(b[2]);
    if !(0..dim).all(|k| canon(fresh.nth(k)) == canon(cast(b[2]))) {
        v(h, idx, &format!("tuple/{label}/new"), J::Null);
    }
    // scale, dot, hypot
    let o = mk(b);
    let sc = t.scale(b[3]);
    for k in 0..dim {
        let want = cast(cast(a[k]) * b[3]);
        if canon(sc.nth(k)) != canon(want) {
            v(h, idx, &format!("tuple/{label}/scale"), J::obj().set("element", k).set("got", sc.nth(k)).set("expected", want));
            return;
        }
    }
    let mut dot = 0.0;
    for k in 0..dim {
        dot += cast(a[k]) * cast(b[k]);
    }
    if canon(t.dot(o)) != canon(dot) {
        v(h, idx, &format!("tuple/{label}/dot"), J::obj().set("got", t.dot(o)).set("expected", dot));
        return;
    }
    let h2 = (cast(a[0]) - cast(b[0])).hypot(cast(a[1]) - cast(b[1]));
    let g2 = t.hypot2(&o);
    if !(canon(g2) == canon(h2) || (g2 - h2).abs() <= ulp(h2)) {
        v(h, idx, &format!("tuple/{label}/hypot2"), J::obj().set("got", g2).set("expected", h2));
        return;
    }
    let g3 = t.hypot3(&o);
    if dim < 3 {
        if !g3.is_nan() {
            v(h, idx, &format!("tuple/{label}/hypot3-of-2d"), J::obj().set("got", g3));
        }
    } else {
        let h3 = h2.hypot(a[2] - b[2]);
        if !(canon(g3) == canon(h3) || (g3 - h3).abs() <= 2.0 * ulp(h3)) {
            v(h, idx, &format!("tuple/{label}/hypot3"), J::obj().set("got", g3).set("expected", h3));
        }
    }
    h.class(&format!("tuple/{label}"));
}

fn tuples(h: &H, idx: u64, rng: &mut Rng) {
    let a = hostile4(rng);
    let b = hostile4(rng);
    h.distinct(hash_f64s(&[a[0], a[1], b[2], b[3]]));
    tuple_checks(h, idx, "Coor4D", |x| Coor4D(*x), 4, false, &a, &b);
    tuple_checks(h, idx, "Coor3D", |x| Coor3D([x[0], x[1], x[2]]), 3, false, &a, &b);
    tuple_checks(h, idx, "Coor2D", |x| Coor2D([x[0], x[1]]), 2, false, &a, &b);
    tuple_checks(h, idx, "Coor32", |x| Coor32([x[0] as f32, x[1] as f32]), 2, true, &a, &b);
    tuple_checks(h, idx, "(f64, f64)", |x| (x[0], x[1]), 2, false, &a, &b);
    // arithmetic operators, element-wise
    let (c, d) = (Coor4D(a), Coor4D(b));
    let cases: [(&str, Coor4D, [f64; 4]); 4] = [
        ("add", c + d, [a[0] + b[0], a[1] + b[1], a[2] + b[2], a[3] + b[3]]),
        ("sub", c - d, [a[0] - b[0], a[1] - b[1], a[2] - b[2], a[3] - b[3]]),
        ("mul", c * d, [a[0] * b[0], a[1] * b[1], a[2] * b[2], a[3] * b[3]]),
        ("div", c / d, [a[0] / b[0], a[1] / b[1], a[2] / b[2], a[3] / b[3]]),
    ];
    for (name, got, want) in cases {
        h.eval(1);
        if !same_bits(&got.0, &want) {
            v(h, idx, &format!("arithmetic/Coor4D/{name}"), J::obj().set("a", J::bits(&a)).set("b", J::bits(&b)).set("got", J::bits(&got.0)).set("expected", J::bits(&want)));
        }
    }
    let (c3, d3) = (Coor3D([a[0], a[1], a[2]]), Coor3D([b[0], b[1], b[2]]));
    let r = (c3 + d3).0;
    let r2 = (c3 * &d3).0;
    if !same_bits(&r, &[a[0] + b[0], a[1] + b[1], a[2] + b[2]]) || !same_bits(&r2, &[a[0] * b[0], a[1] * b[1], a[2] * b[2]]) {
        v(h, idx, "arithmetic/Coor3D", J::Null);
    }
    let (c2, d2) = (Coor2D([a[0], a[1]]), Coor2D([b[0], b[1]]));
    let r = (c2 - d2).0;
    let r2 = (c2 / &d2).0;
    if !same_bits(&r, &[a[0] - b[0], a[1] - b[1]]) || !same_bits(&r2, &[a[0] / b[0], a[1] / b[1]]) {
        v(h, idx, "arithmetic/Coor2D", J::Null);
    }
    let (f1, f2) = (Coor32([a[0] as f32, a[1] as f32]), Coor32([b[0] as f32, b[1] as f32]));
    let r = (f1 + f2).0;
    let want = [(a[0] as f32) + (b[0] as f32), (a[1] as f32) + (b[1] as f32)];
    if r[0].to_bits() != want[0].to_bits() && !(r[0].is_nan() && want[0].is_nan()) {
        v(h, idx, "arithmetic/Coor32", J::Null);
    }
    let mixed = (c2 + f2).0;
    if !same_bits(&mixed, &[a[0] + (b[0] as f32 as f64), a[1] + (b[1] as f32 as f64)]) {
        v(h, idx, "arithmetic/Coor2D-plus-Coor32", J::Null);
    }
    // constructors
    let g = Coor4D::geo(a[1], a[0], a[2], a[3]).0;
    let s = Coor4D::gis(a[0], a[1], a[2], a[3]).0;
    let asec = Coor4D::arcsec(a[0], a[1], a[2], a[3]).0;
    let want = [a[0].to_radians(), a[1].to_radians(), a[2], a[3]];
    let wsec = [a[0].to_radians() / 3600.0, a[1].to_radians() / 3600.0, a[2], a[3]];
    if !same_bits(&g, &want) || !same_bits(&s, &want) || !same_bits(&asec, &wsec) {
        v(h, idx, "constructors/geo-gis-arcsec", J::obj().set("input", J::bits(&a)).set("geo", J::bits(&g)).set("gis", J::bits(&s)).set("arcsec", J::bits(&asec)));
    }
    let deg = Coor4D(a).to_degrees().0;
    let rad = Coor4D(a).to_radians().0;
    let sec = Coor4D(a).to_arcsec().0;
    let geo = Coor4D(a).to_geo().0;
    let ok = same_bits(&deg, &[a[0].to_degrees(), a[1].to_degrees(), a[2], a[3]])
        && same_bits(&rad, &[a[0].to_radians(), a[1].to_radians(), a[2], a[3]])
        && same_bits(&sec, &[a[0].to_degrees() * 3600.0, a[1].to_degrees() * 3600.0, a[2], a[3]])
        && same_bits(&geo, &[a[1].to_degrees(), a[0].to_degrees(), a[2], a[3]]);
    if !ok {
        v(h, idx, "angular-units/Coor4D", J::obj().set("input", J::bits(&a)).set("to_degrees", J::bits(&deg)).set("to_radians", J::bits(&rad)).set("to_arcsec", J::bits(&sec)).set("to_geo", J::bits(&geo)));
    }
    h.class("arithmetic-and-constructors");
}

/// Decode an ISO 6709 number by its definition
fn iso_dm_def(x: f64) -> f64 {
    let s = if x.is_sign_negative() { -1.0 } else { 1.0 };
    let x = x.abs();
    let d = (x / 100.0).floor();
    s * (d + (x - 100.0 * d) / 60.0)
}

fn iso_dms_def(x: f64) -> f64 {
    let s = if x.is_sign_negative() { -1.0 } else { 1.0 };
    let x = x.abs();
    let d = (x / 10000.0).floor();
    let m = ((x - 10000.0 * d) / 100.0).floor();
    s * (d + m / 60.0 + (x - 10000.0 * d - 100.0 * m) / 3600.0)
}

/// All encodings of one angle: returns the worst round trip error in degrees
fn encodings(h: &H, idx: u64, dd: f64) -> Option<f64> {
    h.eval(4);
    let tol = 1.0e-10;
    let dm = angular::dd_to_iso_dm(dd);
    let dms = angular::dd_to_iso_dms(dd);
    // the encoded numbers mean what ISO 6709 says they mean
    let e1 = (iso_dm_def(dm) - dd).abs();
    let e2 = (iso_dms_def(dms) - dd).abs();
    // and decode back
    let b1 = (angular::iso_dm_to_dd(dm) - dd).abs();
    let b2 = (angular::iso_dms_to_dd(dms) - dd).abs();
    let worst = e1.max(e2).max(b1).max(b2);
    if !(worst <= tol) {
        v(
            h,
            idx,
            if e1 > tol || e2 > tol { "angles/iso-encoding-wrong" } else { "angles/iso-round-trip" },
            J::obj().set("degrees", dd).set("iso_dm", dm).set("iso_dms", dms).set("decoded_dm", angular::iso_dm_to_dd(dm)).set("decoded_dms", angular::iso_dms_to_dd(dms)),
        );
        return None;
    }
    Some(worst)
}

fn angles(h: &H, idx: u64, rng: &mut Rng) {
    // special attention: carries, |angle| < 1 degree, negative zero-degree angles
    let d = rng.int(-720, 720) as f64;
    let dd = match rng.below(6) {
        0 => rng.range(-1.0, 1.0),
        1 => d + (59.0 + rng.range(0.999, 1.0)) / 60.0 * d.signum(),
        2 => d + (rng.int(0, 59) as f64 + (59.0 + rng.range(0.9999, 1.0)) / 60.0) / 60.0 * d.signum(),
        3 => -rng.f() / 60.0,
        4 => d,
        _ => rng.range(-720.0, 720.0),
    };
    h.distinct(hash_f64s(&[dd]));
    if h.want_sample() && idx % 500 == 3 {
        h.sample(J::obj().set("what", "angle encodings").set("degrees", dd));
    }
    if encodings(h, idx, dd).is_none() {
        return;
    }
    // degree, minute, second components
    let deg = rng.int(-360, 360) as i32;
    let deg = if rng.chance(0.3) { 0 } else { deg };
    let min = rng.below(60) as u16;
    let sec = rng.short_decimal(0.0, 59.999, 3);
    let sign = if deg < 0 { -1.0 } else { 1.0 };
    let want = sign * (deg.abs() as f64 + min as f64 / 60.0 + sec / 3600.0);
    let got = angular::dms_to_dd(deg, min, sec);
    h.eval(2);
    if !((got - want).abs() <= 1.0e-10) {
        v(h, idx, &format!("angles/dms_to_dd/{}", if deg == 0 { "zero-degrees" } else { "general" }), J::obj().set("d_m_s", J::coords(&[deg as f64, min as f64, sec])).set("got", got).set("expected", want));
        return;
    }
    let mind = min as f64 + sec / 60.0;
    let want = sign * (deg.abs() as f64 + mind / 60.0);
    let got = angular::dm_to_dd(deg, mind);
    if !((got - want).abs() <= 1.0e-10) {
        v(h, idx, &format!("angles/dm_to_dd/{}", if deg == 0 { "zero-degrees" } else { "general" }), J::obj().set("d_m", J::coords(&[deg as f64, mind])).set("got", got).set("expected", want));
        return;
    }
    h.class(if deg == 0 { "angles/zero-degree-components" } else { "angles/components" });
    // text form
    let hemi = *rng.pick(&["", "N", "S", "E", "W", "n", "s", "e", "w"]);
    let hs = if "SsWw".contains(hemi) && !hemi.is_empty() { -1.0 } else { 1.0 };
    let neg = rng.chance(0.4);
    let text = format!("{}{}:{}:{}{hemi}", if neg { "-" } else { "" }, deg.abs(), min, sec);
    let want = hs * if neg { -1.0 } else { 1.0 } * (deg.abs() as f64 + (min as f64 + sec / 60.0) / 60.0);
    let got = angular::parse_sexagesimal(&text);
    h.eval(1);
    if !((got - want).abs() <= 2.0 * ulp(want.abs().max(1.0))) {
        v(h, idx, &format!("angles/parse_sexagesimal/{}", if deg == 0 { "zero-degrees" } else { "general" }), J::obj().set("text", &text).set("got", got).set("expected", want));
        return;
    }
    // normalisation: an equivalent angle in the stated range
    let ang = match rng.below(4) {
        0 => rng.range(-50.0, 50.0),
        1 => rng.int(-20, 20) as f64 * PI,
        2 => rng.logmag(1e-9, 1e6),
        _ => rng.range(-7.0, 7.0),
    };
    let ns = angular::normalize_symmetric(ang);
    let np = angular::normalize_positive(ang);
    h.eval(2);
    let equivalent = |a: f64, b: f64| {
        let k = ((a - b) / (2.0 * PI)).round();
        (a - b - k * 2.0 * PI).abs() <= 1.0e-9 * a.abs().max(1.0)
    };
    if !(ns >= -PI && ns <= PI && equivalent(ang, ns)) {
        v(h, idx, "angles/normalize_symmetric", J::obj().set("angle", ang).set("normalized", ns));
        return;
    }
    if !((0.0..=2.0 * PI).contains(&np) && equivalent(ang, np)) {
        v(h, idx, "angles/normalize_positive", J::obj().set("angle", ang).set("normalized", np));
        return;
    }
    h.class("angles/normalize");
    // the dm / dms operators agree with the functions
    let mut ctx = Minimal::new();
    for (name, dms) in [("dm", false), ("dms", true)] {
        let Ok(op) = ctx.op(name) else { continue };
        let lat = rng.range(-90.0, 90.0);
        let lon = rng.range(-180.0, 180.0);
        let (elat, elon) = if dms { (angular::dd_to_iso_dms(lat), angular::dd_to_iso_dms(lon)) } else { (angular::dd_to_iso_dm(lat), angular::dd_to_iso_dm(lon)) };
        let (r, _) = apply1(&ctx, op, D::F, [elat, elon, 5.0, 6.0]);
        h.eval(1);
        let d = (r[0].to_degrees() - lon).abs().max((r[1].to_degrees() - lat).abs());
        if !(d <= 1.0e-10) || r[2] != 5.0 || r[3] != 6.0 {
            v(h, idx, &format!("angles/operator-{name}/fwd"), J::obj().set("lat_lon", J::coords(&[lat, lon])).set("encoded", J::coords(&[elat, elon])).set("result", J::coords(&r)));
            return;
        }
        let (i, _) = apply1(&ctx, op, D::I, [lon.to_radians(), lat.to_radians(), 5.0, 6.0]);
        let dec = |x: f64| if dms { iso_dms_def(x) } else { iso_dm_def(x) };
        let d = (dec(i[0]) - lat).abs().max((dec(i[1]) - lon).abs());
        if !(d <= 1.0e-10) {
            v(h, idx, &format!("angles/operator-{name}/inv"), J::obj().set("lat_lon", J::coords(&[lat, lon])).set("result", J::coords(&i)));
            return;
        }
        h.class(&format!("angles/operator-{name}"));
    }
}
