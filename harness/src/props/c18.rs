//! C18 - names resolve predictably; handles stay valid; operators never change.
//! History + executable model: a registry model predicts what every instantiation must do;
//! after every history step every live handle is re-fingerprinted.  A threaded workload shares
//! contexts for apply while other threads instantiate, register and clear the grid cache; the
//! per-thread event logs are checked offline against the sequential fingerprints.

use crate::harness::{hash_str, H};
use crate::json::J;
use crate::rng::Rng;
use crate::util::*;
use geodesy::authoring::*;
use std::collections::BTreeMap;
use std::sync::atomic::{AtomicU64, Ordering};
use std::sync::Mutex;

fn v(h: &H, idx: u64, sig: &str, d: J) {
    h.violation(idx, &format!("C18/{sig}"), d);
}

// ---- user operators: "add K to the first element" ------------------------------------------------

macro_rules! adder {
    ($new:ident, $fwd:ident, $inv:ident, $k:expr) => {
        fn $fwd(_op: &Op, _ctx: &dyn Context, operands: &mut dyn CoordinateSet) -> usize {
            for i in 0..operands.len() {
                let mut c = operands.get_coord(i);
                c[0] += $k;
                operands.set_coord(i, &c);
            }
            operands.len()
        }
        fn $inv(_op: &Op, _ctx: &dyn Context, operands: &mut dyn CoordinateSet) -> usize {
            for i in 0..operands.len() {
                let mut c = operands.get_coord(i);
                c[0] -= $k;
                operands.set_coord(i, &c);
            }
            operands.len()
        }
        fn $new(parameters: &RawParameters, ctx: &dyn Context) -> Result<Op, Error> {
            const G: [OpParameter; 1] = [OpParameter::Flag { key: "inv" }];
            Op::plain(parameters, InnerOp($fwd), Some(InnerOp($inv)), &G, ctx)
        }
    };
}
adder!(new16, f16, i16, 16.0);
adder!(new256, f256, i256, 256.0);
adder!(new4096, f4096, i4096, 4096.0);

const USER_OPS: [(f64, fn(&RawParameters, &dyn Context) -> Result<Op, Error>); 3] = [(16.0, new16), (256.0, new256), (4096.0, new4096)];

// ---- the registry model ------------------------------------------------------------------------------

#[derive(Default, Clone)]
struct Registry {
    ops: BTreeMap<String, f64>,
    resources: BTreeMap<String, String>,
    /// what Plain finds on disk: name -> text
    files: BTreeMap<String, String>,
}

/// The net effect on the first element, or an error, by the documented resolution order:
/// pipeline, then user operator (names without colon), then macro (names with colon), then built-in
fn resolve(def: &str, reg: &Registry, depth: usize) -> Result<f64, String> {
    if depth > 30 {
        return Err("recursion".into());
    }
    if def.contains('|') {
        let mut sum = 0.0;
        let mut any = false;
        for s in def.split('|') {
            if s.trim().is_empty() {
                continue;
            }
            any = true;
            sum += resolve(s.trim(), reg, depth + 1)?;
        }
        if !any {
            return Err("empty".into());
        }
        return Ok(sum);
    }
    let words: Vec<&str> = def.split_whitespace().collect();
    let inv = words.contains(&"inv");
    let name = words.iter().find(|w| **w != "inv").copied().unwrap_or("");
    let sign = if inv { -1.0 } else { 1.0 };
    if !name.contains(':') {
        if let Some(k) = reg.ops.get(name) {
            return Ok(sign * k);
        }
    } else {
        if let Some(body) = reg.resources.get(name).or_else(|| reg.files.get(name)) {
            return Ok(sign * resolve(body, reg, depth + 1)?);
        }
        return Err(format!("no macro {name}"));
    }
    match name {
        "addone" => Ok(sign),
        "noop" => Ok(0.0),
        _ => Err(format!("unknown operator {name}")),
    }
}

const OP_NAMES: [&str; 5] = ["addone", "noop", "myop", "other", "utm"];
const RES_NAMES: [&str; 8] = ["m:a", "m:b", "n:a", "m:ab", "plainname", "f:disk", "m:a:b", "a:b:c:d"];

fn random_def(rng: &mut Rng) -> String {
    let step = |rng: &mut Rng| -> String {
        let n = if rng.chance(0.5) { *rng.pick(&OP_NAMES[..4]) } else { *rng.pick(&["m:a", "m:b", "n:a", "m:ab", "f:disk", "f:reg", "f:last", "g:crlf", "x:none", "nosuch", "m:a:b", "a:b:c:d"]) };
        match rng.below(4) {
            0 => format!("{n} inv"),
            1 => format!("inv {n}"),
            _ => n.to_string(),
        }
    };
    if rng.chance(0.5) {
        step(rng)
    } else {
        let k = 2 + rng.below(3);
        (0..k).map(|_| step(rng)).collect::<Vec<_>>().join(" | ")
    }
}

struct Live {
    ctx: usize,
    handle: OpHandle,
    def: String,
    delta: f64,
    steps: Vec<String>,
}

enum Ctx {
    M(Minimal),
    P(Plain),
}

impl Ctx {
    fn op(&mut self, d: &str) -> Result<OpHandle, Error> {
        match self {
            Ctx::M(c) => c.op(d),
            Ctx::P(c) => c.op(d),
        }
    }
    fn apply(&self, h: OpHandle, d: D, v: &mut Vec<Coor4D>) -> Result<usize, Error> {
        match self {
            Ctx::M(c) => c.apply(h, d.dir(), v),
            Ctx::P(c) => c.apply(h, d.dir(), v),
        }
    }
    fn steps(&self, h: OpHandle) -> Result<Vec<String>, Error> {
        match self {
            Ctx::M(c) => c.steps(h).cloned(),
            Ctx::P(c) => c.steps(h).cloned(),
        }
    }
    fn params(&self, h: OpHandle, i: usize) -> Result<ParsedParameters, Error> {
        match self {
            Ctx::M(c) => c.params(h, i),
            Ctx::P(c) => c.params(h, i),
        }
    }
    fn register_op(&mut self, n: &str, c: OpConstructor) {
        match self {
            Ctx::M(x) => x.register_op(n, c),
            Ctx::P(x) => x.register_op(n, c),
        }
    }
    fn register_resource(&mut self, n: &str, d: &str) {
        match self {
            Ctx::M(x) => x.register_resource(n, d),
            Ctx::P(x) => x.register_resource(n, d),
        }
    }
}

/// Scratch directory with a generated ./geodesy tree; returns what Plain must find there
fn scratch(h: &H) -> BTreeMap<String, String> {
    let dir = h.cfg.out.join(format!("c18_{}_{}", h.cfg.shard, std::process::id()));
    let res = dir.join("geodesy").join("resources");
    std::fs::create_dir_all(&res).ok();
    for sub in ["datum", "geoid", "deformation", "gsb"] {
        let _ = std::os::unix::fs::symlink(format!("/repo/geodesy/{sub}"), dir.join("geodesy").join(sub));
    }
    let mut expect = BTreeMap::new();
    // a stand-alone resource file
    std::fs::write(res.join("f_disk.resource"), "\n  addone | addone | addone  \n").ok();
    expect.insert("f:disk".to_string(), "addone | addone | addone".to_string());
    // a register with several fenced items, similar names, an item at the end of the file
    // without terminator
    let reg = "# A register\n\nSome text mentioning geodesy:reg in passing.\n\n```geodesy:regx\naddone inv\n```\n\n```geodesy:reg\naddone | addone\n```\n\nMore text.\n\n```geodesy:disk\nnoop\n```\n\n```geodesy:last\naddone | addone | addone | addone";
    std::fs::write(res.join("f.md"), reg).ok();
    expect.insert("f:regx".to_string(), "addone inv".to_string());
    expect.insert("f:reg".to_string(), "addone | addone".to_string());
    expect.insert("f:last".to_string(), "addone | addone | addone | addone".to_string());
    // (f:disk is in the register too, but the stand-alone file is found first)
    // CR LF line ends
    let crlf = "intro\r\n\r\n```geodesy:crlf\r\naddone inv | addone inv\r\n```\r\n\r\n```geodesy:cr\raddone\r```\r";
    std::fs::write(res.join("g.md"), crlf).ok();
    expect.insert("g:crlf".to_string(), "addone inv | addone inv".to_string());
    expect.insert("g:cr".to_string(), "addone".to_string());
    // the second place Plain looks in: the user's data directory.  A register of the same name
    // as a local one, holding an item the local one lacks; a register and a file found only there
    let user = dir.join("userdata");
    let ures = user.join("geodesy").join("resources");
    std::fs::create_dir_all(&ures).ok();
    std::fs::write(ures.join("f.md"), "```geodesy:reg\nnoop\n```\n\n```geodesy:elsewhere\naddone | noop\n```\n").ok();
    expect.insert("f:elsewhere".to_string(), "addone | noop".to_string());
    std::fs::write(ures.join("u.md"), "```geodesy:only\naddone inv | noop\n```\n").ok();
    expect.insert("u:only".to_string(), "addone inv | noop".to_string());
    std::fs::write(ures.join("u_file.resource"), "noop | addone").ok();
    // (a file of a colliding name in the user directory: the local register is found first)
    std::fs::write(ures.join("f_reg.resource"), "noop | noop | noop").ok();
    std::fs::write(ures.join("f_last.resource"), "noop").ok();
    expect.insert("u:file".to_string(), "noop | addone".to_string());
    std::env::set_var("XDG_DATA_HOME", &user);
    let _ = std::env::set_current_dir(&dir);
    expect
}

pub fn run(h: &H) {
    let files = scratch(h);
    let n = h.budget(3_200, 160_000);
    for idx in h.cases(n) {
        let mut rng = h.rng(idx);
        if idx % 16 == 15 {
            h.guard(idx, "threads sharing contexts and the grid cache", || threaded(h, idx, &mut rng));
        } else if idx % 16 == 14 {
            h.guard(idx, "file based macros", || file_macros(h, idx, &files));
        } else if idx % 16 == 13 && (idx / 16) % 4 == 0 {
            h.guard(idx, "a user operator that refuses a definition still shadows the built-in", || strict_shadow(h, idx));
        } else if idx % 16 == 13 {
            h.guard(idx, "what one operation leaves behind is invisible to the others", || leftovers(h, idx, &mut rng));
        } else {
            h.guard(idx, "history of registry operations", || history(h, idx, &mut rng, &files));
        }
    }
}

/// Operations that leave something behind when applied (stack pipelines with more pushes than
/// pops; grid operators filling the cache) interleaved with operations that would notice
/// (pipelines that pop, flip or roll deeper than they pushed): every fingerprint stays what it was
/// at instantiation, in this and in other contexts
fn leftovers(h: &H, idx: u64, rng: &mut Rng) {
    let leavers = ["stack push=1,2 | addone", "addone | stack push=3,4,1 | noop", "push v_1 v_2 | addone", "stack push=1 | stack push=2 | stack swap"];
    let takers = ["addone | stack pop=1", "stack pop=2,1 | addone", "stack push=1 | stack pop=1,2", "stack push=1 | stack roll=3,1 | stack pop=1", "addone | pop v_1", "stack push=1 | stack flip=1,2"];
    let mut ctxs: Vec<Minimal> = (0..1 + rng.below(2)).map(|_| Minimal::new()).collect();
    let pts: Vec<Coor4D> = (0..3).map(|i| Coor4D([1.5 + i as f64, 2.25, 3.125, 4.0625])).collect();
    let mut live: Vec<(usize, &str, OpHandle, Vec<u64>, Vec<u64>)> = Vec::new();
    let fp = |ctx: &Minimal, op: OpHandle, d: D| -> Vec<u64> {
        let mut data = pts.clone();
        let n = apply_set(ctx, op, d, &mut data);
        let mut out = vec![n as u64];
        for c in &data {
            for x in c.0 {
                out.push(canon(x));
            }
        }
        out
    };
    h.distinct(crate::rng::mix(idx, 13));
    for step in 0..12 {
        let k = rng.below(ctxs.len());
        let def = if rng.chance(0.5) { *rng.pick(&leavers) } else { *rng.pick(&takers) };
        if let Ok(op) = ctxs[k].op(def) {
            let (f, i) = (fp(&ctxs[k], op, D::F), fp(&ctxs[k], op, D::I));
            live.push((k, def, op, f, i));
        }
        // apply a random live operation a few times, then look at all of them again
        if !live.is_empty() {
            let (k2, _, op2, _, _) = &live[rng.below(live.len())];
            for _ in 0..1 + rng.below(3) {
                let _ = fp(&ctxs[*k2], *op2, if rng.chance(0.5) { D::F } else { D::I });
            }
        }
        for (k3, def3, op3, f3, i3) in &live {
            h.eval(2);
            if fp(&ctxs[*k3], *op3, D::F) != *f3 || fp(&ctxs[*k3], *op3, D::I) != *i3 {
                v(
                    h,
                    idx,
                    "behaviour-of-a-live-handle-changed/after-another-operation-was-applied",
                    J::obj().set("definition", *def3).set("history_step", step as i64).set("live_operations", J::Arr(live.iter().map(|l| J::s(l.1)).collect())),
                );
                return;
            }
        }
    }
    h.class("leftovers/stack");
    let _ = &mut ctxs;
}

fn strict_fwd(op: &Op, _ctx: &dyn Context, operands: &mut dyn CoordinateSet) -> usize {
    let k = op.params.real("amount").unwrap_or(0.0);
    for i in 0..operands.len() {
        let mut c = operands.get_coord(i);
        c[0] += k;
        operands.set_coord(i, &c);
    }
    operands.len()
}

fn strict_new(parameters: &RawParameters, ctx: &dyn Context) -> Result<Op, Error> {
    const G: [OpParameter; 2] = [OpParameter::Flag { key: "inv" }, OpParameter::Real { key: "amount", default: None }];
    Op::plain(parameters, InnerOp(strict_fwd), None, &G, ctx)
}

/// A user operator registered under the name of a built-in is the one that answers for that
/// name from then on, also when it refuses the definition: resolution does not fall through
fn strict_shadow(h: &H, idx: u64) {
    let mut run = |label: &str, ctx: &mut dyn Context| {
        let before = ctx.op("addone").is_ok();
        ctx.register_op("addone", OpConstructor(strict_new));
        h.eval(3);
        h.class("strict-user-operator");
        let plain = ctx.op("addone");
        let in_pipeline = ctx.op("noop | addone | noop");
        let with_arg = ctx.op("addone amount=3");
        if !before || plain.is_ok() || in_pipeline.is_ok() || with_arg.is_err() {
            v(
                h,
                idx,
                "user-operator-does-not-shadow-the-built-in-when-it-refuses",
                J::obj()
                    .set("context", label)
                    .set("built_in_before_registration", before)
                    .set("addone", format!("{:?}", plain.map(|_| "instantiated")))
                    .set("in_pipeline", format!("{:?}", in_pipeline.map(|_| "instantiated")))
                    .set("addone amount=3", format!("{:?}", with_arg.map(|_| "instantiated"))),
            );
        }
    };
    run("Minimal", &mut Minimal::new());
    run("Plain", &mut Plain::new());
    h.distinct(crate::rng::mix(idx, 14));
}

fn file_macros(h: &H, idx: u64, files: &BTreeMap<String, String>) {
    let mut p = Plain::new();
    for (name, text) in files {
        h.eval(1);
        h.distinct(hash_str(name));
        match p.get_resource(name) {
            Ok(t) if &t == text => {}
            other => {
                v(h, idx, &format!("file-macro-text/{name}"), J::obj().set("name", name).set("expected", text).set("got", format!("{other:?}")));
                return;
            }
        }
    }
    // a run-time registration takes precedence over the files
    p.register_resource("f:disk", "noop");
    if p.get_resource("f:disk").ok().as_deref() != Some("noop") {
        v(h, idx, "run-time-registration-does-not-take-precedence", J::s("f:disk"));
    }
    // absent names, and names of the wrong shape, are errors
    for bad in ["f:nothere", "nocolon", "a:b:c", "q:x"] {
        if p.get_resource(bad).is_ok() {
            v(h, idx, "unknown-resource-found", J::s(bad));
        }
    }
    h.class("file-macros");
}

fn history(h: &H, idx: u64, rng: &mut Rng, files: &BTreeMap<String, String>) {
    let nctx = 1 + rng.below(3);
    let mut ctxs: Vec<Ctx> = Vec::new();
    let mut regs: Vec<Registry> = Vec::new();
    for _ in 0..nctx {
        let plain = rng.chance(0.5);
        ctxs.push(if plain { Ctx::P(Plain::new()) } else { Ctx::M(Minimal::new()) });
        let mut r = Registry::default();
        if plain {
            r.files = files.clone();
        }
        regs.push(r);
    }
    let mut live: Vec<Live> = Vec::new();
    let mut log: Vec<String> = Vec::new();
    let probe = || vec![Coor4D([1000.0, 2.0, 3.0, 4.0]), Coor4D([-7.0, 8.0, 9.0, 10.0])];
    let steps_n = 10 + rng.below(50);
    for _ in 0..steps_n {
        let c = rng.below(ctxs.len());
        match rng.below(10) {
            0 => {
                let name = *rng.pick(&OP_NAMES);
                let (k, ctor) = *rng.pick(&USER_OPS);
                ctxs[c].register_op(name, OpConstructor(ctor));
                regs[c].ops.insert(name.to_string(), k);
                log.push(format!("ctx{c}.register_op({name}, +{k})"));
                h.class("history/register_op");
            }
            1 | 2 => {
                let name = *rng.pick(&RES_NAMES);
                let body = random_def(rng);
                ctxs[c].register_resource(name, &body);
                regs[c].resources.insert(name.to_string(), body.clone());
                log.push(format!("ctx{c}.register_resource({name}, {body:?})"));
                h.class("history/register_resource");
            }
            3..=6 => {
                let def = random_def(rng);
                let want = resolve(&def, &regs[c], 0);
                let got = ctxs[c].op(&def);
                h.eval(1);
                log.push(format!("ctx{c}.op({def:?}) -> model {want:?}"));
                h.class("history/op");
                match (got, want) {
                    (Ok(handle), Ok(delta)) => {
                        if live.iter().any(|l| l.handle == handle) {
                            v(h, idx, "handle-not-unique", J::obj().set("history", log.clone()));
                            return;
                        }
                        let steps = ctxs[c].steps(handle).unwrap_or_default();
                        live.push(Live { ctx: c, handle, def, delta, steps });
                    }
                    (Err(_), Err(_)) => {}
                    (Ok(_), Err(why)) => {
                        v(h, idx, "unknown-name-instantiated", J::obj().set("definition", &def).set("model", why).set("history", log.clone()));
                        return;
                    }
                    (Err(e), Ok(_)) => {
                        if matches!(e, Error::Recursion(_, _)) {
                            continue;
                        }
                        v(h, idx, "resolvable-definition-rejected", J::obj().set("definition", &def).set("error", format!("{e}")).set("history", log.clone()));
                        return;
                    }
                }
            }
            7 => {
                Plain::clear_grids();
                log.push("Plain::clear_grids()".into());
                h.class("history/clear_grids");
            }
            8 => {
                // unknown handles give errors: a foreign handle, a fresh one
                let foreign = live.iter().find(|l| l.ctx != c).map(|l| l.handle).unwrap_or_default();
                let mut data = probe();
                let a = ctxs[c].apply(foreign, D::F, &mut data).is_err();
                let b = ctxs[c].steps(OpHandle::new()).is_err();
                let d = ctxs[c].params(OpHandle::default(), 0).is_err();
                h.eval(3);
                h.class("history/unknown-handles");
                if !(a && b && d) || !same_bits(&data[0].0, &probe()[0].0) {
                    v(h, idx, "unknown-handle-accepted", J::obj().set("history", log.clone()));
                    return;
                }
            }
            _ => {
                if ctxs.len() < 3 {
                    let plain = rng.chance(0.5);
                    ctxs.push(if plain { Ctx::P(Plain::new()) } else { Ctx::M(Minimal::new()) });
                    let mut r = Registry::default();
                    if plain {
                        r.files = files.clone();
                    }
                    regs.push(r);
                    log.push(format!("new context ctx{} ({})", ctxs.len() - 1, if plain { "Plain" } else { "Minimal" }));
                    h.class("history/new-context");
                }
            }
        }
        // after every step: every live handle still behaves as at its instantiation
        for l in &live {
            for d in [D::F, D::I] {
                let mut data = probe();
                let count = ctxs[l.ctx].apply(l.handle, d, &mut data);
                h.eval(1);
                let sign = if d == D::F { 1.0 } else { -1.0 };
                let ok = count.is_ok()
                    && data[0][0] == 1000.0 + sign * l.delta
                    && data[1][0] == -7.0 + sign * l.delta
                    && data[0][1] == 2.0
                    && data[1][3] == 10.0;
                if !ok {
                    v(
                        h,
                        idx,
                        "behaviour-of-a-live-handle-changed",
                        J::obj()
                            .set("definition", &l.def)
                            .set("context", l.ctx)
                            .set("expected_delta", sign * l.delta)
                            .set("got", J::coords(&data[0].0))
                            .set("count", format!("{count:?}"))
                            .set("history", log.clone()),
                    );
                    return;
                }
            }
            let steps = ctxs[l.ctx].steps(l.handle).unwrap_or_default();
            if steps != l.steps {
                v(h, idx, "steps-of-a-live-handle-changed", J::obj().set("definition", &l.def).set("before", l.steps.clone()).set("after", steps).set("history", log.clone()));
                return;
            }
            if ctxs[l.ctx].params(l.handle, 0).is_err() {
                v(h, idx, "params-of-a-live-handle-unavailable", J::obj().set("definition", &l.def).set("history", log.clone()));
                return;
            }
        }
    }
    h.distinct(hash_str(&log.join("\n")));
    h.class_n("history/live-handles-checked", live.len() as u64);
    if h.want_sample() && idx % 80 == 0 {
        h.sample(J::obj().set("history", log.iter().take(12).cloned().collect::<Vec<_>>()).set("length", log.len()));
    }
}

// ---- threads -------------------------------------------------------------------------------------------

static INTERLEAVINGS: Mutex<Option<std::collections::BTreeSet<u64>>> = Mutex::new(None);

fn fingerprint(ctx: &Plain, op: OpHandle, pts: &[Coor4D]) -> (u64, usize) {
    let mut data = pts.to_vec();
    let n = ctx.apply(op, Fwd, &mut data).unwrap_or(usize::MAX);
    let mut hsh = 0u64;
    for c in &data {
        for x in c.0 {
            hsh = crate::rng::mix(hsh, canon(x));
        }
    }
    (hsh, n)
}

fn threaded(h: &H, idx: u64, rng: &mut Rng) {
    let defs = [
        "gridshift grids=test.datum",
        "gridshift grids=5458_with_subgrid.gsb",
        "gridshift grids=test.geoid inv",
        "geo:in | gridshift grids=test.datum | utm zone=32 | neu:out",
        "cart | deformation grids=test.deformation dt=5 | cart inv",
        "addone | m:t | utm zone=33",
    ];
    let pts: Vec<Coor4D> = (0..8).map(|i| Coor4D([(9.0 + i as f64 * 0.7).to_radians(), (54.5 + i as f64 * 0.4).to_radians(), 10.0, 2000.0])).collect();
    let pts_deg: Vec<Coor4D> = (0..8).map(|i| Coor4D([54.5 + i as f64 * 0.4, 9.0 + i as f64 * 0.7, 10.0, 2000.0])).collect();
    let mut shared = Plain::new();
    shared.register_resource("m:t", "addone inv");
    let mut handles = Vec::new();
    for d in defs {
        match shared.op(d) {
            Ok(op) => handles.push((d, op)),
            Err(e) => {
                v(h, idx, "threaded/instantiation-failed", J::obj().set("definition", d).set("error", format!("{e}")));
                return;
            }
        }
    }
    let input = |d: &str| if d.starts_with("geo:in") { &pts_deg } else { &pts };
    // sequential fingerprints
    let seq: Vec<(u64, usize)> = handles.iter().map(|(d, op)| fingerprint(&shared, *op, input(d))).collect();
    let clock = AtomicU64::new(0);
    let nthreads = 6;
    let rounds = if h.quick() { 12 } else { 30 };
    let seeds: Vec<u64> = (0..nthreads).map(|_| rng.u64()).collect();
    type Log = Vec<(u64, usize, String, u64, usize)>;
    let issued: Mutex<Vec<(usize, OpHandle)>> = Mutex::new(handles.iter().map(|(_, op)| (usize::MAX, *op)).collect());
    let foreign_accepted = AtomicU64::new(0);
    let logs: Vec<Log> = std::thread::scope(|s| {
        let mut joins = Vec::new();
        for t in 0..nthreads {
            let shared = &shared;
            let handles = &handles;
            let clock = &clock;
            let pts = &pts;
            let pts_deg = &pts_deg;
            let seed = seeds[t];
            let issued = &issued;
            let foreign_accepted = &foreign_accepted;
            joins.push(s.spawn(move || {
                let mut r = Rng::new(seed);
                let mut log: Log = Vec::new();
                let mut own = Plain::new();
                for _ in 0..rounds {
                    // injected delays between API calls, never inside one
                    match r.below(4) {
                        0 => std::thread::yield_now(),
                        1 => std::thread::sleep(std::time::Duration::from_micros(r.below(200) as u64)),
                        _ => {}
                    }
                    match (t + r.below(3)) % 3 {
                        0 => {
                            // apply through the shared context
                            let k = r.below(handles.len());
                            let (d, op) = handles[k];
                            let inp = if d.starts_with("geo:in") { pts_deg } else { pts };
                            let fp = fingerprint(shared, op, inp);
                            log.push((clock.fetch_add(1, Ordering::SeqCst), k, "shared.apply".into(), fp.0, fp.1));
                        }
                        1 => {
                            // a context of one's own: instantiate (loads grids into the shared cache)
                            let k = r.below(handles.len() - 1);
                            let d = handles[k].0;
                            if let Ok(op) = own.op(d) {
                                issued.lock().unwrap().push((t, op));
                                // a handle issued by another context is unknown to the shared one
                                let mut probe = pts.to_vec();
                                if shared.apply(op, Fwd, &mut probe).is_ok() {
                                    foreign_accepted.fetch_add(1, Ordering::SeqCst);
                                }
                                let inp = if d.starts_with("geo:in") { pts_deg } else { pts };
                                let fp = fingerprint(&own, op, inp);
                                log.push((clock.fetch_add(1, Ordering::SeqCst), k, "own.op+apply".into(), fp.0, fp.1));
                            } else {
                                log.push((clock.fetch_add(1, Ordering::SeqCst), k, "own.op FAILED".into(), 0, 0));
                            }
                        }
                        _ => {
                            Plain::clear_grids();
                            log.push((clock.fetch_add(1, Ordering::SeqCst), usize::MAX, "clear_grids".into(), 0, 0));
                            if r.chance(0.3) {
                                own = Plain::new();
                            }
                        }
                    }
                }
                log
            }));
        }
        joins.into_iter().map(|j| j.join().unwrap_or_default()).collect()
    });
    // ---- handles: unique over all threads and contexts; foreign ones refused -----------------------
    {
        let all = issued.lock().unwrap();
        let mut seen: BTreeMap<String, usize> = BTreeMap::new();
        for (t, op) in all.iter() {
            if let Some(prev) = seen.insert(format!("{op:?}"), *t) {
                v(
                    h,
                    idx,
                    "threaded/handle-not-unique-across-threads",
                    J::obj().set("handle", format!("{op:?}")).set("issued_in_thread", *t as i64).set("and_in_thread", prev as i64).set("handles_issued", all.len()),
                );
                return;
            }
        }
        h.class_n("threaded/handles-compared", all.len() as u64);
        let fa = foreign_accepted.load(Ordering::SeqCst);
        if fa > 0 {
            v(h, idx, "threaded/foreign-handle-accepted", J::obj().set("what", "a handle issued by a thread's own context was accepted by the shared context").set("times", fa as i64));
            return;
        }
    }
    // ---- offline checker over the merged event log ----------------------------------------------
    let mut merged: Vec<(u64, usize, usize, String, u64, usize)> = Vec::new();
    for (t, l) in logs.iter().enumerate() {
        for e in l {
            merged.push((e.0, t, e.1, e.2.clone(), e.3, e.4));
        }
    }
    merged.sort();
    let mut order_hash = 0u64;
    for e in &merged {
        order_hash = crate::rng::mix(order_hash, (e.1 as u64) << 8 | (e.2 as u64 & 0xff));
        h.eval(1);
        if e.2 == usize::MAX {
            continue;
        }
        if e.3.contains("FAILED") {
            v(h, idx, "threaded/instantiation-failed-under-concurrency", J::obj().set("definition", handles[e.2].0).set("thread", e.1));
            return;
        }
        if (e.4, e.5) != seq[e.2] {
            v(
                h,
                idx,
                "threaded/result-differs-from-sequential",
                J::obj()
                    .set("definition", handles[e.2].0)
                    .set("thread", e.1)
                    .set("call", &e.3)
                    .set("logical_time", e.0)
                    .set("events_before", J::Arr(merged.iter().filter(|x| x.0 < e.0).rev().take(6).map(|x| J::s(format!("t{} {} #{}", x.1, x.3, x.2))).collect())),
            );
            return;
        }
    }
    // the shared handles still behave as before
    for (k, (d, op)) in handles.iter().enumerate() {
        if fingerprint(&shared, *op, input(d)) != seq[k] {
            v(h, idx, "threaded/shared-handle-changed", J::obj().set("definition", *d));
            return;
        }
    }
    let mut g = INTERLEAVINGS.lock().unwrap();
    let set = g.get_or_insert_with(Default::default);
    set.insert(order_hash);
    h.extra("distinct_interleavings_observed_at_the_api_boundary", J::Int(set.len() as i64));
    h.class("threaded/runs");
    h.class_n("threaded/events-checked", merged.len() as u64);
    h.distinct(order_hash);
}
