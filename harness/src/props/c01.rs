//! C01 - inverse undoes forward, for every invertible operator, in both orders, stand-alone,
//! with the `inv` modifier, through macros and inside pipelines.

use crate::catalog::{self, residual, Inst, Metric};
use crate::harness::{hash_f64s, hash_str, H};
use crate::json::J;
use crate::rng::{mix, Rng};
use crate::util::*;
use geodesy::authoring::*;

/// Non-grid operators the catalogue can generate
pub const NAMES: [&str; 28] = [
    "adapt", "addone", "axisswap", "btmerc", "butm", "cart", "cartfar", "dm", "dms", "geodesic", "helmert",
    "laea", "latitude", "lcc", "merc", "webmerc", "molodensky", "omerc", "permtide", "somerc",
    "tmerc", "unitconvert", "utm", "noop", "longlat", "latlon", "latlong", "lonlat",
];

pub fn coverage_diff(h: &H) {
    // Operators the library has but the catalogue does not know: reported, never skipped silently
    let known: Vec<&str> = catalog::INVERTIBLE
        .iter()
        .chain(catalog::ONE_WAY.iter())
        .copied()
        .collect();
    for n in geodesy::verif::builtin_operator_names() {
        if !known.contains(&n) {
            h.uncovered(&format!("operator '{n}' is not in the harness catalogue"));
        }
    }
}

fn jitter(inst: &Inst, rng: &mut Rng, y: &[f64; 4]) -> [f64; 4] {
    let mut y = *y;
    if inst.out_jitter == 0.0 {
        return y;
    }
    let n = match inst.out_metric {
        Metric::Plane => 2,
        Metric::Cart => 3,
        _ => 0,
    };
    for v in y.iter_mut().take(n) {
        *v += rng.range(-inst.out_jitter, inst.out_jitter);
    }
    y
}

/// One route from a catalogue instance to an operator handle: the definition text actually
/// instantiated, whether Fwd/Inv are exchanged, and a tolerance multiplier
struct Route {
    label: &'static str,
    def: String,
    swapped: bool,
    resources: Vec<(String, String)>,
}

fn routes(inst: &Inst, rng: &mut Rng) -> Vec<Route> {
    let mut r = vec![Route {
        label: "plain",
        def: inst.def.clone(),
        swapped: false,
        resources: vec![],
    }];
    // the inv modifier in one of its spellings
    let spell = rng.below(3);
    let mut parts = inst.def.splitn(2, ' ');
    let name = parts.next().unwrap_or("");
    let rest = parts.next().unwrap_or("");
    let invdef = match spell {
        0 => format!("{} inv", inst.def),
        1 => format!("inv {}", inst.def),
        _ => format!("{name} inv {rest}"),
    };
    r.push(Route {
        label: "inv-modifier",
        def: invdef,
        swapped: true,
        resources: vec![],
    });
    // through a macro, plain and inverted
    r.push(Route {
        label: "macro",
        def: "rt:op".to_string(),
        swapped: false,
        resources: vec![("rt:op".to_string(), inst.def.clone())],
    });
    r.push(Route {
        label: "macro-inv",
        def: "rt:op inv".to_string(),
        swapped: true,
        resources: vec![("rt:op".to_string(), inst.def.clone())],
    });
    // inside a pipeline with bit-exact neighbours
    let pipe = format!("noop | {} | axisswap order=1,2,3,4 | noop", inst.def);
    r.push(Route {
        label: "pipeline",
        def: pipe.clone(),
        swapped: false,
        resources: vec![],
    });
    r.push(Route {
        label: "macro-pipeline-inv",
        def: "rt:pipe inv".to_string(),
        swapped: true,
        resources: vec![("rt:pipe".to_string(), pipe)],
    });
    r
}

pub fn run(h: &H) {
    coverage_diff(h);
    let n = h.budget(270, 27 * 4000);
    let npts = if h.quick() { 120 } else { 400 };
    for idx in h.cases(n) {
        let mut rng = h.rng(idx);
        let name = NAMES[(idx as usize + h.cfg.shard as usize * 7) % NAMES.len()];
        let Some(inst) = catalog::instance(name, &mut rng) else {
            continue;
        };
        let desc = format!("{} [{}]", inst.def, inst.aspect);
        h.guard(idx, &desc, || one_instance(h, idx, &inst, &mut rng, npts));
    }
}

fn one_instance(h: &H, idx: u64, inst: &Inst, rng: &mut Rng, npts: usize) {
    let xs: Vec<[f64; 4]> = (0..npts).map(|_| inst.sample(rng)).collect();
    let mut reference: Option<(Vec<Coor4D>, Vec<Coor4D>)> = None;
    for route in routes(inst, rng) {
        let mut ctx = Minimal::new();
        for (k, v) in &route.resources {
            ctx.register_resource(k, v);
        }
        let op = match ctx.op(&route.def) {
            Ok(op) => op,
            Err(e) => {
                h.violation(
                    idx,
                    &format!("C01/{}/{}/instantiation-failed", inst.name, route.label),
                    J::obj()
                        .set("definition", &route.def)
                        .set("error", format!("{e}"))
                        .set("aspect", &inst.aspect),
                );
                continue;
            }
        };
        let (f, i) = if route.swapped { (D::I, D::F) } else { (D::F, D::I) };
        h.class(&format!("{}/{}/{}", inst.name, inst.aspect, route.label));

        // forward, then inverse
        let mut ys: Vec<Coor4D> = xs.iter().map(|x| Coor4D(*x)).collect();
        apply_set(&ctx, op, f, &mut ys);
        let fwd_out = ys.clone();
        let mut back = ys.clone();
        apply_set(&ctx, op, i, &mut back);
        let mut hashes = Vec::with_capacity(npts);
        for k in 0..npts {
            let r = residual(&inst.in_metric, &inst.ell, &back[k].0, &xs[k]);
            let key = format!("{}/fwd-inv", inst.name);
            h.max(&key, if r.is_finite() { r / inst.tol_in.max(1e-300) } else { f64::MAX }, || {
                format!("{} at {}", route.def, fmt4(&xs[k]))
            });
            if !(r <= inst.tol_in) && route.label == "plain" {
                h.violation(
                    idx,
                    &format!("C01/{}/{}/fwd-inv", inst.name, inst.aspect),
                    J::obj()
                        .set("definition", &route.def)
                        .set("resources", J::Arr(route.resources.iter().map(|(k, v)| J::s(format!("{k} = {v}"))).collect()))
                        .set("input", J::bits(&xs[k]))
                        .set("forward", J::bits(&fwd_out[k].0))
                        .set("back", J::bits(&back[k].0))
                        .set("residual", r)
                        .set("tolerance", inst.tol_in)
                        .set("metric", format!("{:?}", inst.in_metric)),
                );
            }
            hashes.push(mix(hash_str(&route.def), hash_f64s(&xs[k])));
        }
        h.distinct_many(&hashes);
        h.eval(npts as u64);

        // inverse first, then forward, from points of the range that are not images already seen
        let mut jr = Rng::new(mix(hash_str(&inst.def), idx));
        let ys0: Vec<[f64; 4]> = fwd_out.iter().map(|y| jitter(inst, &mut jr, &y.0)).collect();
        let mut pre: Vec<Coor4D> = ys0.iter().map(|y| Coor4D(*y)).collect();
        apply_set(&ctx, op, i, &mut pre);
        let inv_out = pre.clone();
        let mut again = pre.clone();
        apply_set(&ctx, op, f, &mut again);
        for k in 0..npts {
            if any_nan(&ys0[k]) {
                continue; // forward failed: reported above
            }
            let mut r = residual(&inst.out_metric, &inst.ell, &again[k].0, &ys0[k]);
            if inst.name == "cart" && r.is_finite() {
                // the stated accuracy is on the ground (plus height): split the cartesian
                // residual into its vertical part and its horizontal part, and reduce the
                // horizontal part from the height of the point to the ellipsoid
                let (lon, lat, hgt) = (inv_out[k].0[0], inv_out[k].0[1], inv_out[k].0[2]);
                let up = [lat.cos() * lon.cos(), lat.cos() * lon.sin(), lat.sin()];
                let dv = [
                    again[k].0[0] - ys0[k][0],
                    again[k].0[1] - ys0[k][1],
                    again[k].0[2] - ys0[k][2],
                ];
                let vert = dv[0] * up[0] + dv[1] * up[1] + dv[2] * up[2];
                let hor = ((dv[0] - vert * up[0]).powi(2)
                    + (dv[1] - vert * up[1]).powi(2)
                    + (dv[2] - vert * up[2]).powi(2))
                .sqrt();
                let reduce = (inst.ell.a / (inst.ell.a + hgt)).min(1.0);
                if reduce.is_finite() && reduce > 0.0 {
                    r = hor * reduce + vert.abs();
                }
            }
            if inst.projection && r.is_finite() {
                // the stated accuracy is on the ground: convert the plane residual with the
                // local linear scale, observed from the jitter step (plane) and what it
                // became on the ellipsoid
                let plane = (ys0[k][0] - fwd_out[k].0[0]).hypot(ys0[k][1] - fwd_out[k].0[1]);
                let ground = inst.ell.ground(xs[k][0], xs[k][1], inv_out[k].0[0], inv_out[k].0[1]);
                if plane > 0.0 && ground > 0.0 && ground.is_finite() {
                    let scale = (plane / ground).max(1.0);
                    r /= scale;
                }
            }
            let key = format!("{}/inv-fwd", inst.name);
            h.max(&key, if r.is_finite() { r / inst.tol_out.max(1e-300) } else { f64::MAX }, || {
                format!("{} at {}", route.def, fmt4(&ys0[k]))
            });
            if !(r <= inst.tol_out) && route.label == "plain" {
                h.violation(
                    idx,
                    &format!("C01/{}/{}/inv-fwd", inst.name, inst.aspect),
                    J::obj()
                        .set("definition", &route.def)
                        .set("resources", J::Arr(route.resources.iter().map(|(k, v)| J::s(format!("{k} = {v}"))).collect()))
                        .set("input", J::bits(&ys0[k]))
                        .set("inverse", J::bits(&inv_out[k].0))
                        .set("again", J::bits(&again[k].0))
                        .set("residual", r)
                        .set("tolerance", inst.tol_out)
                        .set("metric", format!("{:?}", inst.out_metric)),
                );
            }
        }
        h.eval(npts as u64);

        // all routes must be the same operation, bit for bit
        match &reference {
            None => reference = Some((fwd_out, inv_out)),
            Some((rf, ri)) => {
                for k in 0..npts {
                    if !same_bits(&rf[k].0, &fwd_out[k].0) || !same_bits(&ri[k].0, &inv_out[k].0) {
                        h.violation(
                            idx,
                            &format!("C01/{}/{}/route-differs-from-plain", inst.name, route.label),
                            J::obj()
                                .set("definition", &route.def)
                                .set("plain_definition", &inst.def)
                                .set("input", J::bits(&xs[k]))
                                .set("plain_forward", J::bits(&rf[k].0))
                                .set("route_forward", J::bits(&fwd_out[k].0))
                                .set("plain_inverse", J::bits(&ri[k].0))
                                .set("route_inverse", J::bits(&inv_out[k].0)),
                        );
                        break;
                    }
                }
            }
        }
    }
    if h.want_sample() {
        h.sample(
            J::obj()
                .set("definition", &inst.def)
                .set("aspect", &inst.aspect)
                .set("first_input", J::coords(&xs[0]))
                .set("points", npts),
        );
    }
}
