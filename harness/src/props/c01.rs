//! C01 - inverse undoes forward, for every invertible operator, in both orders, stand-alone,
//! with the `inv` modifier, through macros and inside pipelines.

use crate::catalog::{self, residual, Inst, Metric};
use crate::harness::{hash_f64s, hash_str, H};
use crate::json::J;
use crate::rng::{mix, Rng};
use crate::util::*;
use crate::catalog::HelmertSpec;
use geodesy::authoring::*;

/// Non-grid operators the catalogue can generate
pub const NAMES: [&str; 28] = [
    "adapt", "addone", "axisswap", "btmerc", "butm", "cart", "cartfar", "dm", "dms", "geodesic", "helmert",
    "laea", "latitude", "lcc", "merc", "webmerc", "molodensky", "omerc", "permtide", "somerc",
    "tmerc", "unitconvert", "utm", "noop", "longlat", "latlon", "latlong", "lonlat",
];

pub fn coverage_diff(h: &H) {
    // Operators the library has but the catalogue does not know: reported, never skipped silently
    let known: Vec<&str> = catalog::INVERTIBLE
        .iter()
        .chain(catalog::ONE_WAY.iter())
        .copied()
        .collect();
    for n in geodesy::verif::builtin_operator_names() {
        if !known.contains(&n) {
            h.uncovered(&format!("operator '{n}' is not in the harness catalogue"));
        }
    }
}

fn jitter(inst: &Inst, rng: &mut Rng, y: &[f64; 4]) -> [f64; 4] {
    let mut y = *y;
    if inst.out_jitter == 0.0 {
        return y;
    }
    let n = match inst.out_metric {
        Metric::Plane => 2,
        Metric::Cart => 3,
        _ => 0,
    };
    for v in y.iter_mut().take(n) {
        *v += rng.range(-inst.out_jitter, inst.out_jitter);
    }
    y
}

/// One route from a catalogue instance to an operator handle: the definition text actually
/// instantiated, whether Fwd/Inv are exchanged, and a tolerance multiplier
struct Route {
    label: &'static str,
    def: String,
    swapped: bool,
    resources: Vec<(String, String)>,
}

fn routes(inst: &Inst, rng: &mut Rng) -> Vec<Route> {
    let mut r = vec![Route {
        label: "plain",
        def: inst.def.clone(),
        swapped: false,
        resources: vec![],
    }];
    // the inv modifier in one of its spellings
    let spell = rng.below(3);
    let mut parts = inst.def.splitn(2, ' ');
    let name = parts.next().unwrap_or("");
    let rest = parts.next().unwrap_or("");
    let invdef = match spell {
        0 => format!("{} inv", inst.def),
        1 => format!("inv {}", inst.def),
        _ => format!("{name} inv {rest}"),
    };
    r.push(Route {
        label: "inv-modifier",
        def: invdef,
        swapped: true,
        resources: vec![],
    });
    // through a macro, plain and inverted
    r.push(Route {
        label: "macro",
        def: "rt:op".to_string(),
        swapped: false,
        resources: vec![("rt:op".to_string(), inst.def.clone())],
    });
    r.push(Route {
        label: "macro-inv",
        def: "rt:op inv".to_string(),
        swapped: true,
        resources: vec![("rt:op".to_string(), inst.def.clone())],
    });
    // inside a pipeline with bit-exact neighbours
    let pipe = format!("noop | {} | axisswap order=1,2,3,4 | noop", inst.def);
    r.push(Route {
        label: "pipeline",
        def: pipe.clone(),
        swapped: false,
        resources: vec![],
    });
    r.push(Route {
        label: "macro-pipeline-inv",
        def: "rt:pipe inv".to_string(),
        swapped: true,
        resources: vec![("rt:pipe".to_string(), pipe)],
    });
    r
}

pub fn run(h: &H) {
    coverage_diff(h);
    let n = h.budget(270, 27 * 4000);
    let npts = if h.quick() { 120 } else { 400 };
    for idx in h.cases(n) {
        let mut rng = h.rng(idx);
        match idx % 10 {
            8 => {
                h.guard(idx, "datum shift and projection in one pipeline", || composite(h, idx, &mut rng, npts));
                continue;
            }
            9 => {
                h.guard(idx, "grid based shifts inside grid coverage", || grid_round_trip(h, idx, &mut rng));
                continue;
            }
            _ => {}
        }
        let name = NAMES[(idx as usize + h.cfg.shard as usize * 7) % NAMES.len()];
        let Some(inst) = catalog::instance(name, &mut rng) else {
            continue;
        };
        let desc = format!("{} [{}]", inst.def, inst.aspect);
        h.guard(idx, &desc, || one_instance(h, idx, &inst, &mut rng, npts));
    }
}

fn one_instance(h: &H, idx: u64, inst: &Inst, rng: &mut Rng, npts: usize) {
    let xs: Vec<[f64; 4]> = (0..npts).map(|_| inst.sample(rng)).collect();
    let mut reference: Option<(Vec<Coor4D>, Vec<Coor4D>)> = None;
    for route in routes(inst, rng) {
        let mut ctx = Minimal::new();
        for (k, v) in &route.resources {
            ctx.register_resource(k, v);
        }
        let op = match ctx.op(&route.def) {
            Ok(op) => op,
            Err(e) => {
                h.violation(
                    idx,
                    &format!("C01/{}/{}/instantiation-failed", inst.name, route.label),
                    J::obj()
                        .set("definition", &route.def)
                        .set("error", format!("{e}"))
                        .set("aspect", &inst.aspect),
                );
                continue;
            }
        };
        let (f, i) = if route.swapped { (D::I, D::F) } else { (D::F, D::I) };
        h.class(&format!("{}/{}/{}", inst.name, inst.aspect, route.label));

        // forward, then inverse
        let mut ys: Vec<Coor4D> = xs.iter().map(|x| Coor4D(*x)).collect();
        apply_set(&ctx, op, f, &mut ys);
        let fwd_out = ys.clone();
        let mut back = ys.clone();
        apply_set(&ctx, op, i, &mut back);
        let mut hashes = Vec::with_capacity(npts);
        for k in 0..npts {
            let r = residual(&inst.in_metric, &inst.ell, &back[k].0, &xs[k]);
            let key = format!("{}/fwd-inv", inst.name);
            h.max(&key, if r.is_finite() { r / inst.tol_in.max(1e-300) } else { f64::MAX }, || {
                format!("{} at {}", route.def, fmt4(&xs[k]))
            });
            if !(r <= inst.tol_in) && route.label == "plain" {
                h.violation(
                    idx,
                    &format!("C01/{}/{}/fwd-inv", inst.name, inst.aspect),
                    J::obj()
                        .set("definition", &route.def)
                        .set("resources", J::Arr(route.resources.iter().map(|(k, v)| J::s(format!("{k} = {v}"))).collect()))
                        .set("input", J::bits(&xs[k]))
                        .set("forward", J::bits(&fwd_out[k].0))
                        .set("back", J::bits(&back[k].0))
                        .set("residual", r)
                        .set("tolerance", inst.tol_in)
                        .set("metric", format!("{:?}", inst.in_metric)),
                );
            }
            hashes.push(mix(hash_str(&route.def), hash_f64s(&xs[k])));
        }
        h.distinct_many(&hashes);
        h.eval(npts as u64);

        // inverse first, then forward, from points of the range that are not images already seen
        let mut jr = Rng::new(mix(hash_str(&inst.def), idx));
        let ys0: Vec<[f64; 4]> = fwd_out.iter().map(|y| jitter(inst, &mut jr, &y.0)).collect();
        let mut pre: Vec<Coor4D> = ys0.iter().map(|y| Coor4D(*y)).collect();
        apply_set(&ctx, op, i, &mut pre);
        let inv_out = pre.clone();
        let mut again = pre.clone();
        apply_set(&ctx, op, f, &mut again);
        for k in 0..npts {
            if any_nan(&ys0[k]) {
                continue; // forward failed: reported above
            }
            if inst.projection && xs[k][1].abs() == std::f64::consts::FRAC_PI_2 {
                // the image of a pole, moved by up to a kilometre in the plane: at the apex of a
                // cone that is a fraction of a millimetre on the ground, inside the 1e-10 rad
                // within which the projections (like PROJ) take a latitude for the pole itself
                continue;
            }
            let mut r = residual(&inst.out_metric, &inst.ell, &again[k].0, &ys0[k]);
            if inst.name == "cart" && r.is_finite() {
                // the stated accuracy is on the ground (plus height): split the cartesian
                // residual into its vertical part and its horizontal part, and reduce the
                // horizontal part from the height of the point to the ellipsoid
                let (lon, lat, hgt) = (inv_out[k].0[0], inv_out[k].0[1], inv_out[k].0[2]);
                let up = [lat.cos() * lon.cos(), lat.cos() * lon.sin(), lat.sin()];
                let dv = [
                    again[k].0[0] - ys0[k][0],
                    again[k].0[1] - ys0[k][1],
                    again[k].0[2] - ys0[k][2],
                ];
                let vert = dv[0] * up[0] + dv[1] * up[1] + dv[2] * up[2];
                let hor = ((dv[0] - vert * up[0]).powi(2)
                    + (dv[1] - vert * up[1]).powi(2)
                    + (dv[2] - vert * up[2]).powi(2))
                .sqrt();
                let reduce = (inst.ell.a / (inst.ell.a + hgt)).min(1.0);
                if reduce.is_finite() && reduce > 0.0 {
                    r = hor * reduce + vert.abs();
                }
            }
            if inst.projection && r.is_finite() {
                // the stated accuracy is on the ground: convert the plane residual with the
                // local linear scale, observed from the jitter step (plane) and what it
                // became on the ellipsoid
                let plane = (ys0[k][0] - fwd_out[k].0[0]).hypot(ys0[k][1] - fwd_out[k].0[1]);
                let ground = inst.ell.ground(xs[k][0], xs[k][1], inv_out[k].0[0], inv_out[k].0[1]);
                if plane > 0.0 && ground > 0.0 && ground.is_finite() {
                    let scale = (plane / ground).max(1.0);
                    r /= scale;
                }
            }
            let key = format!("{}/inv-fwd", inst.name);
            h.max(&key, if r.is_finite() { r / inst.tol_out.max(1e-300) } else { f64::MAX }, || {
                format!("{} at {}", route.def, fmt4(&ys0[k]))
            });
            if !(r <= inst.tol_out) && route.label == "plain" {
                h.violation(
                    idx,
                    &format!("C01/{}/{}/inv-fwd", inst.name, inst.aspect),
                    J::obj()
                        .set("definition", &route.def)
                        .set("resources", J::Arr(route.resources.iter().map(|(k, v)| J::s(format!("{k} = {v}"))).collect()))
                        .set("input", J::bits(&ys0[k]))
                        .set("inverse", J::bits(&inv_out[k].0))
                        .set("again", J::bits(&again[k].0))
                        .set("residual", r)
                        .set("tolerance", inst.tol_out)
                        .set("metric", format!("{:?}", inst.out_metric)),
                );
            }
        }
        h.eval(npts as u64);

        // all routes must be the same operation, bit for bit
        match &reference {
            None => reference = Some((fwd_out, inv_out)),
            Some((rf, ri)) => {
                for k in 0..npts {
                    if !same_bits(&rf[k].0, &fwd_out[k].0) || !same_bits(&ri[k].0, &inv_out[k].0) {
                        h.violation(
                            idx,
                            &format!("C01/{}/{}/route-differs-from-plain", inst.name, route.label),
                            J::obj()
                                .set("definition", &route.def)
                                .set("plain_definition", &inst.def)
                                .set("input", J::bits(&xs[k]))
                                .set("plain_forward", J::bits(&rf[k].0))
                                .set("route_forward", J::bits(&fwd_out[k].0))
                                .set("plain_inverse", J::bits(&ri[k].0))
                                .set("route_inverse", J::bits(&inv_out[k].0)),
                        );
                        break;
                    }
                }
            }
        }
    }
    if h.want_sample() {
        h.sample(
            J::obj()
                .set("definition", &inst.def)
                .set("aspect", &inst.aspect)
                .set("first_input", J::coords(&xs[0]))
                .set("points", npts),
        );
    }
}

/// Whole pipelines: geographic -> cartesian -> exact Helmert -> geographic on another ellipsoid ->
/// a projection of the catalogue; forward then inverse, tolerance = the projection's class plus
/// the micrometre of the cartesian round trips
fn composite(h: &H, idx: u64, rng: &mut Rng, npts: usize) {
    let pname = *rng.pick(&["merc", "tmerc", "utm", "lcc", "laea", "somerc", "omerc", "btmerc"]);
    let Some(p) = catalog::instance(pname, rng) else { return };
    // two terrestrial ellipsoids: with a unit sphere (or a body of another size) at one end the
    // middle of the pipeline is a point hundreds of kilometres off the other ellipsoid
    if !(6.3e6..6.4e6).contains(&p.ell.a) {
        return;
    }
    let e1 = rng.pick(&["GRS80", "intl", "bessel", "clrk66", "WGS84", "krass", "airy", "clrk80"]).to_string();
    // a datum shift of realistic size, with the exact rotation matrix (so that its inverse is exact)
    let mut spec = HelmertSpec::random(rng, "p7_approx");
    spec.exact = true;
    let hdef = spec.def();
    let def = format!("cart ellps={e1} | {hdef} | cart inv ellps={} | {}", p.ell_name, p.def);
    let mut ctx = Minimal::new();
    let macro_route = rng.chance(0.3);
    let op = if macro_route {
        ctx.register_resource("rt:whole", &def);
        ctx.op("noop | rt:whole")
    } else {
        ctx.op(&def)
    };
    let op = match op {
        Ok(op) => op,
        Err(e) => {
            h.violation(idx, "C01/pipeline/instantiation-failed", J::obj().set("definition", &def).set("error", format!("{e}")));
            return;
        }
    };
    h.class(&format!("pipeline/shift-then-{pname}{}", if macro_route { "/macro" } else { "" }));
    h.distinct(mix(hash_str(&def), idx));
    // `cart inv` delivers longitudes in (-pi, pi]: only such input can come back as it was
    let xs: Vec<[f64; 4]> = (0..npts.min(100))
        .map(|_| {
            let mut x = p.sample(rng);
            x[2] = rng.range(-100.0, 5000.0);
            x
        })
        // (and a kilometre of datum shift must not carry the point across the date line or
        // the pole, where the longitude jumps)
        .filter(|x| x[0].abs() < std::f64::consts::PI - 0.05 && x[1].abs() < 88.0_f64.to_radians())
        .collect();
    let mut ys: Vec<Coor4D> = xs.iter().map(|x| Coor4D(*x)).collect();
    apply_set(&ctx, op, D::F, &mut ys);
    let mut back = ys.clone();
    apply_set(&ctx, op, D::I, &mut back);
    // the first ellipsoid measures the ground
    let ell1 = {
        let e = Ellipsoid::named(&e1).unwrap_or_default();
        crate::geo::Ell { a: e.a(), f: e.f() }
    };
    let tol = p.tol_in + 5.0e-6;
    for k in 0..xs.len() {
        h.eval(1);
        if any_nan(&ys[k].0) {
            // the shifted point left the projection's domain: nothing to undo
            continue;
        }
        let r = ell1.ground(xs[k][0], xs[k][1], back[k].0[0], back[k].0[1]) + (xs[k][2] - back[k].0[2]).abs();
        h.max("pipeline/fwd-inv", if r.is_finite() { r / tol } else { f64::MAX }, || format!("{def} at {}", fmt4(&xs[k])));
        if !(r <= tol) || canon(xs[k][3]) != canon(back[k].0[3]) {
            h.violation(
                idx,
                &format!("C01/pipeline/shift-then-{pname}/fwd-inv"),
                J::obj().set("definition", &def).set("input", J::bits(&xs[k])).set("forward", J::bits(&ys[k].0)).set("back", J::bits(&back[k].0)).set("residual", r).set("tolerance", tol),
            );
            return;
        }
    }
}

/// Grid based shifts inside the coverage of harness-built grids, served through `GridCtx`:
/// geoid heights (exact to rounding), datum shifts (the inverse iterates to 1e-12 rad) and
/// deformations (one-step lookup: exact up to the change of the velocity over the displacement)
fn grid_round_trip(h: &H, idx: u64, rng: &mut Rng) {
    use crate::gridgen::{GridCtx, GridSpec};
    use std::sync::Arc;
    let bands = 1 + rng.below(3);
    let spec = loop {
        let s = GridSpec::random(rng, bands, false);
        if s.lon_e < 175.0 && s.lon_w > -175.0 && s.lat_n < 85.0 && s.lat_s > -85.0 {
            break s;
        }
    };
    let text = spec.gravsoft(rng);
    let Ok(grid) = BaseGrid::gravsoft(text.as_bytes()) else { return };
    let m = spec.model();
    let mut ctx = GridCtx::new();
    let (gname, def, dt) = match bands {
        1 => ("g.geoid", "gridshift grids=g.geoid".to_string(), 0.0),
        2 => ("g.datum", "gridshift grids=g.datum".to_string(), 0.0),
        _ => {
            let dt = rng.short_decimal(1.0, 30.0, 1);
            if rng.chance(0.5) {
                ("g.deformation", format!("deformation grids=g.deformation dt={}", num(dt)), dt)
            } else {
                // the duration is the distance between the tuples' epoch (2015.5) and t_epoch
                let t0 = 2015.5 - dt;
                ("g.deformation", format!("deformation grids=g.deformation t_epoch={}", num(t0)), dt)
            }
        }
    };
    ctx.grids.insert(gname.into(), Arc::new(grid));
    let Ok(op) = ctx.op(&def) else {
        h.violation(idx, "C01/grid/instantiation-failed", J::obj().set("definition", &def));
        return;
    };
    h.class(&format!("grid/{}-band", bands));
    h.distinct(mix(hash_str(&text), idx));
    let e = Ellipsoid::default();
    let g80 = crate::geo::GRS80;
    for _ in 0..40 {
        // well inside: the shift must not carry the point (or the iteration) out of the grid
        let lon = m.lon_w + rng.range(0.2, 0.8) * (m.lon_e - m.lon_w);
        let lat = m.lat_s + rng.range(0.2, 0.8) * (m.lat_n - m.lat_s);
        let hgt = rng.range(-50.0, 3000.0);
        let Some(w) = m.at(lon, lat, 0.0) else { continue };
        let x: [f64; 4] = if bands == 3 {
            let c = e.cartesian(&Coor4D([lon, lat, hgt, 0.0]));
            [c[0], c[1], c[2], 2015.5]
        } else {
            [lon, lat, hgt, 2015.5]
        };
        // the size of the shift, and how much it changes over its own length
        let (tol, skip) = match bands {
            1 => (4.0 * crate::geo::ulp(hgt.abs() + w[0].abs() + 1.0), false),
            2 => {
                let reach = 3.0 * (w[0].abs() + w[1].abs());
                let inside = m.contains(lon - reach, lat - reach, 0.0) && m.contains(lon + reach, lat + reach, 0.0);
                (1.0e-5, !inside)
            }
            _ => {
                let (mlat, mlon) = (m.dlat * g80.m_rad(lat), m.dlon * g80.n_rad(lat) * lat.cos());
                let cell = mlat.min(mlon);
                let mut spread = 0.0f64;
                for b in 0..3 {
                    let c = m.corners(lon, lat, b);
                    let (lo, hi) = c.iter().fold((f64::MAX, f64::MIN), |a, v| (a.0.min(*v), a.1.max(*v)));
                    spread = spread.max(hi - lo);
                }
                let d = dt * (w[0].abs() + w[1].abs() + w[2].abs());
                let g = dt * 3.0 * spread / cell;
                (1.0e-6 + 2.0 * d * g, d > 0.2 * cell)
            }
        };
        if skip {
            continue;
        }
        for (first, second) in [(D::F, D::I), (D::I, D::F)] {
            let (y, c1) = apply1(&ctx, op, first, x);
            let (b, c2) = apply1(&ctx, op, second, y);
            h.eval(2);
            let r = match bands {
                1 => (b[2] - x[2]).abs() + if b[0] == x[0] && b[1] == x[1] { 0.0 } else { f64::INFINITY },
                2 => g80.ground(x[0], x[1], b[0], b[1]) + if b[2] == x[2] { 0.0 } else { f64::INFINITY },
                _ => ((b[0] - x[0]).powi(2) + (b[1] - x[1]).powi(2) + (b[2] - x[2]).powi(2)).sqrt(),
            };
            let label = if first == D::F { "fwd-inv" } else { "inv-fwd" };
            h.max(&format!("grid/{bands}-band/{label}"), if r.is_finite() { r / tol } else { f64::MAX }, || format!("{def} at {}", fmt4(&x)));
            if c1 != 1 || c2 != 1 || !(r <= tol) || canon(b[3]) != canon(x[3]) {
                h.violation(
                    idx,
                    &format!("C01/grid/{bands}-band/{label}"),
                    J::obj()
                        .set("definition", &def)
                        .set("grid_lat_s_lat_n_lon_w_lon_e_rad", J::coords(&[m.lat_s, m.lat_n, m.lon_w, m.lon_e]))
                        .set("input", J::bits(&x))
                        .set("there", J::bits(&y))
                        .set("back", J::bits(&b))
                        .set("counts", J::coords(&[c1 as f64, c2 as f64]))
                        .set("residual", r)
                        .set("tolerance", tol),
                );
                return;
            }
        }
    }
}
