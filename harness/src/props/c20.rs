//! C20 - the kp command line program prints what the library computes.
//! Process-boundary differential: kp (built from the working tree) runs as a subprocess, the
//! expected numbers come from the same library build, in-process.

use super::c16_ref_real as ref_real;
use crate::harness::{hash_str, H};
use crate::json::J;
use crate::rng::{mix, Rng};
use crate::util::*;
use geodesy::authoring::*;
use std::io::Write;
use std::process::{Command, Stdio};

fn v(h: &H, idx: u64, sig: &str, d: J) {
    h.violation(idx, &format!("C20/{sig}"), d);
}

struct Run {
    status: Option<i32>,
    signal: bool,
    stdout: String,
    stderr: String,
    timed_out: Option<f64>,
}

fn child_cpu(pid: u32) -> f64 {
    let Ok(s) = std::fs::read_to_string(format!("/proc/{pid}/stat")) else { return 0.0 };
    let Some(rest) = s.rsplit_once(')') else { return 0.0 };
    let f: Vec<&str> = rest.1.split_whitespace().collect();
    let u: f64 = f.get(11).and_then(|x| x.parse().ok()).unwrap_or(0.0);
    let k: f64 = f.get(12).and_then(|x| x.parse().ok()).unwrap_or(0.0);
    (u + k) / 100.0
}

fn run_kp(kp: &std::path::Path, args: &[String], stdin: Option<&str>) -> Run {
    let mut cmd = Command::new(kp);
    cmd.args(args).stdout(Stdio::piped()).stderr(Stdio::piped()).env("RUST_BACKTRACE", "0");
    cmd.stdin(if stdin.is_some() { Stdio::piped() } else { Stdio::null() });
    let mut child = match cmd.spawn() {
        Ok(c) => c,
        Err(e) => {
            return Run { status: None, signal: false, stdout: String::new(), stderr: format!("spawn failed: {e}"), timed_out: None };
        }
    };
    let pid = child.id();
    // feed stdin from a thread so that a full pipe cannot deadlock us
    let feeder = stdin.map(|text| {
        let mut pipe = child.stdin.take().unwrap();
        let text = text.to_string();
        std::thread::spawn(move || {
            let _ = pipe.write_all(text.as_bytes());
        })
    });
    let out = child.stdout.take().unwrap();
    let err = child.stderr.take().unwrap();
    let to = std::thread::spawn(move || {
        let mut s = String::new();
        let _ = std::io::Read::read_to_string(&mut { out }, &mut s);
        s
    });
    let te = std::thread::spawn(move || {
        let mut s = String::new();
        let _ = std::io::Read::read_to_string(&mut { err }, &mut s);
        s
    });
    let start = std::time::Instant::now();
    let mut timed_out = None;
    let status = loop {
        match child.try_wait() {
            Ok(Some(s)) => break Some(s),
            Ok(None) => {
                let cpu = child_cpu(pid);
                if cpu > 60.0 || start.elapsed().as_secs_f64() > 300.0 {
                    timed_out = Some(cpu);
                    let _ = child.kill();
                    break child.wait().ok();
                }
                std::thread::sleep(std::time::Duration::from_millis(5));
            }
            Err(_) => break None,
        }
    };
    if let Some(f) = feeder {
        let _ = f.join();
    }
    let stdout = to.join().unwrap_or_default();
    let stderr = te.join().unwrap_or_default();
    use std::os::unix::process::ExitStatusExt;
    Run {
        status: status.and_then(|s| s.code()),
        signal: status.map(|s| s.signal().is_some()).unwrap_or(false),
        stdout,
        stderr,
        timed_out,
    }
}

const OPERATIONS: [(&str, bool); 12] = [
    ("geo:in | utm zone=32", true),
    ("geo:in | utm zone=32 | neu:out", true),
    ("addone", true),
    ("helmert x=1.5 y=-2.25 z=3 s=100", true),
    ("geo:in | cart ellps=intl | helmert x=-87 y=-96 z=-120 | cart inv | geo:out", true),
    ("geo:in | gridshift grids=test.datum | geo:out", true),
    ("noop", true),
    ("geo:in | tmerc lon_0=9 k_0=0.9996 x_0=500000", true),
    ("axisswap order=2,1,4,3", true),
    ("curvature mean", false),
    ("helmert x=0.1 y=0.2 z=0.3 dx=0.01 dy=-0.02 dz=0.03 rx=0.001 drx=0.0001 convention=position_vector t_epoch=2010", true),
    ("geo:in | lcc lat_1=33 lat_2=45 lat_0=35 lon_0=10 x_0=12345 y_0=67890", true),
];

/// The reference reading of an input file: one tuple per line that has at least one token
fn read_lines(text: &str, z: Option<f64>, t: Option<f64>) -> Vec<[f64; 4]> {
    let mut out = Vec::new();
    for line in text.lines() {
        let mut toks: Vec<&str> = line.split_whitespace().collect();
        if let Some(p) = toks.iter().position(|x| x.starts_with('#')) {
            toks.truncate(p);
        }
        if toks.is_empty() {
            continue;
        }
        let mut c = [0.0, 0.0, 0.0, f64::NAN];
        for (i, tok) in toks.iter().take(4).enumerate() {
            c[i] = ref_real(tok).unwrap_or(f64::NAN);
        }
        if let Some(z) = z {
            c[2] = z;
        }
        if let Some(t) = t {
            c[3] = t;
        }
        out.push(c);
    }
    out
}

/// Spellings of input values for operations without a domain: signs, sexagesimal with a zero
/// degree field, hemisphere letters in both cases, exponents
const FREE_VALUES: [&str; 20] = [
    "-0:30:00", "-0:15:36", "0:30:00S", "0:15:36w", "0:30:00s", "55:30s", "12:30:15.5e", "7W", "-1:30:36", "12:30W", "12:30:15.5n", "1e3", "-0.5", "+2.5", ".5", "5.", "-0", "0:0:36",
    "1:30", "-12:00:00.25E",
];

fn gen_input(rng: &mut Rng, nlines: usize, fixed_cols: Option<usize>) -> String {
    gen_input_for(rng, nlines, fixed_cols, false)
}

fn gen_input_for(rng: &mut Rng, nlines: usize, fixed_cols: Option<usize>, free: bool) -> String {
    let mut s = String::with_capacity(nlines * 40);
    let ncols_file = fixed_cols.unwrap_or(2 + rng.below(3));
    for i in 0..nlines {
        if nlines < 1000 && rng.chance(0.1) {
            s += *rng.pick(&["\n", "   \n", "# a comment line\n", "#\n", "\t\n"]);
        }
        let ncols = if fixed_cols.is_some() || nlines >= 1000 { ncols_file } else { 1 + rng.below(4) };
        let lat = 54.2 + 3.5 * rng.f();
        let lon = 8.2 + 7.5 * rng.f();
        let vals = [lat, lon, (rng.f() * 500.0 * 100.0).round() / 100.0, 2000.0 + (i % 30) as f64];
        for k in 0..ncols {
            if k > 0 {
                s += if rng.chance(0.1) { "\t" } else { " " };
            }
            if free && rng.chance(0.3) {
                s += *rng.pick(&FREE_VALUES);
            } else if k < 2 && nlines < 1000 && rng.chance(0.15) {
                // sexagesimal with a hemisphere letter
                let d = vals[k].floor();
                let m = ((vals[k] - d) * 60.0).floor();
                let sec = ((vals[k] - d - m / 60.0) * 3600.0 * 100.0).round() / 100.0;
                s += &format!("{d}:{m}:{sec}{}", if k == 0 { "N" } else { "E" });
            } else {
                s += &format!("{:.6}", vals[k]);
            }
        }
        if nlines < 1000 && rng.chance(0.1) {
            s += "  # trailing comment 1 2 3";
        }
        s += if rng.chance(0.02) { "\r\n" } else { "\n" };
    }
    s
}

/// Check one output against expected tuples
#[allow(clippy::too_many_arguments)]
fn check_output(h: &H, idx: u64, what: &str, args: &[String], out: &str, want: &[[f64; 4]], decimals: usize, dim: usize) -> bool {
    let lines: Vec<&str> = out.lines().collect();
    let detail = |msg: &str| {
        J::obj()
            .set("what", msg)
            .set("kp_arguments", args.to_vec())
            .set("output_lines", lines.len())
            .set("expected_lines", want.len())
            .set("output_head", lines.iter().take(3).map(|x| x.to_string()).collect::<Vec<_>>())
    };
    if lines.len() != want.len() {
        v(h, idx, &format!("{what}/line-count"), detail("not exactly one output line per coordinate line"));
        return false;
    }
    let ncol = if dim == 0 || dim > 4 { 4 } else { dim };
    for (i, (line, w)) in lines.iter().zip(want.iter()).enumerate() {
        let toks: Vec<&str> = line.split_whitespace().collect();
        if toks.len() != ncol {
            v(h, idx, &format!("{what}/dimension"), detail("wrong number of values on an output line").set("line", i).set("text", *line).set("requested_dimension", dim));
            return false;
        }
        for (k, tok) in toks.iter().enumerate() {
            let x = w[k];
            if !x.is_finite() {
                let ok = (x.is_nan() && *tok == "NaN") || (x == f64::INFINITY && *tok == "inf") || (x == f64::NEG_INFINITY && *tok == "-inf");
                if !ok {
                    v(h, idx, &format!("{what}/value"), detail("non-finite value printed differently").set("line", i).set("column", k).set("printed", *tok).set("library", x));
                    return false;
                }
                continue;
            }
            // the requested number of decimals
            let dec = tok.split_once('.').map(|p| p.1.len()).unwrap_or(0);
            if dec != decimals {
                v(h, idx, &format!("{what}/decimals"), detail("not the requested number of decimals").set("line", i).set("printed", *tok).set("requested", decimals));
                return false;
            }
            let Ok(p) = tok.parse::<f64>() else {
                v(h, idx, &format!("{what}/value"), detail("unparsable number").set("printed", *tok));
                return false;
            };
            // rounding, semantically: within half a unit of the last printed place
            let half = 0.5 * 10f64.powi(-(decimals as i32));
            let tol = half * (1.0 + 1e-9) + 4.0 * crate::geo::ulp(x);
            if !((p - x).abs() <= tol) {
                v(
                    h,
                    idx,
                    &format!("{what}/value"),
                    detail("the printed number is not the library's result rounded to the requested decimals").set("line", i).set("column", k).set("printed", *tok).set("library", x).set("tolerance", tol),
                );
                return false;
            }
        }
    }
    true
}

pub fn run(h: &H) {
    let Some(kp) = h.cfg.kp.clone() else {
        h.violation(u64::MAX, "HARNESS-PANIC/no-kp-binary-given", J::s("--kp missing"));
        return;
    };
    let scratch = h.cfg.out.join(format!("c20_{}_{}", h.cfg.shard, std::process::id()));
    std::fs::create_dir_all(&scratch).ok();
    let n = h.budget(160, 4_800);
    for idx in h.cases(n) {
        let mut rng = h.rng(idx);
        match idx % 10 {
            9 => {
                h.guard(idx, "kp: error paths and empty input", || errors(h, idx, &kp, &scratch, &mut rng));
            }
            8 if (idx / 10) % 4 == 3 => {
                h.guard(idx, "kp: estimated output format across a batch boundary", || batch_format(h, idx, &kp, &scratch, &mut rng));
            }
            8 => {
                h.guard(idx, "kp: batch boundaries", || batches(h, idx, &kp, &scratch, &mut rng));
            }
            _ => {
                h.guard(idx, "kp: output against the library", || ordinary(h, idx, &kp, &scratch, &mut rng));
            }
        }
    }
}

fn expected(op_text: &str, inverse: bool, roundtrip: bool, input: &[[f64; 4]]) -> Result<Vec<[f64; 4]>, String> {
    let mut ctx = Plain::new();
    let op = ctx.op(op_text).map_err(|e| format!("{e}"))?;
    // "the library's result for that line's tuple": every tuple on its own, so that nothing a
    // tuple could inherit from its neighbours in kp's batches is part of the expectation
    let d = if inverse { D::I } else { D::F };
    let mut out = Vec::with_capacity(input.len());
    let mut one = vec![Coor4D::origin()];
    for c in input {
        one[0] = Coor4D(*c);
        apply_set(&ctx, op, d, &mut one);
        if roundtrip {
            apply_set(&ctx, op, d.flip(), &mut one);
            one[0] = one[0] - Coor4D(*c);
        }
        out.push(one[0].0);
    }
    Ok(out)
}

/// The library's result for the whole input as one set (what kp's batching must not change)
fn expected_whole(op_text: &str, input: &[[f64; 4]]) -> Option<Vec<[f64; 4]>> {
    let mut ctx = Plain::new();
    let op = ctx.op(op_text).ok()?;
    let mut data: Vec<Coor4D> = input.iter().map(|c| Coor4D(*c)).collect();
    apply_set(&ctx, op, D::F, &mut data);
    Some(data.iter().map(|c| c.0).collect())
}

fn ordinary(h: &H, idx: u64, kp: &std::path::Path, scratch: &std::path::Path, rng: &mut Rng) {
    let (op_text, invertible) = *rng.pick(&OPERATIONS);
    let nlines = *rng.pick(&[1usize, 2, 3, 7, 40, 200]);
    let free = matches!(op_text, "addone" | "noop" | "axisswap order=2,1,4,3") || op_text.starts_with("helmert");
    let mut text = gen_input_for(rng, nlines, None, free);
    if op_text.contains("lcc") {
        // the pole at the apex of the cone, behind ordinary lines
        for _ in 0..1 + rng.below(2) {
            let lines: Vec<&str> = text.split_inclusive('\n').collect();
            let at = if lines.is_empty() { 0 } else { 1 + rng.below(lines.len()) };
            let mut t: String = lines[..at.min(lines.len())].concat();
            t += &format!("90 {}\n", rng.int(-20, 40));
            t += &lines[at.min(lines.len())..].concat();
            text = t;
        }
    }
    let decimals = rng.below(13);
    let dim = 1 + rng.below(4);
    let z = if rng.chance(0.3) { Some(rng.short_decimal(-50.0, 900.0, 1)) } else { None };
    let t = if rng.chance(0.3) { Some(rng.short_decimal(1990.0, 2030.0, 1)) } else { None };
    let inverse = invertible && rng.chance(0.25);
    // every combination of --inv and --roundtrip, also both at once (Inv then Fwd residuals)
    let roundtrip = invertible && rng.chance(0.3);
    // without -D the output dimension is estimated from the input: the widest coordinate line
    let explicit_dim = rng.chance(0.7);
    let mut args: Vec<String> = vec![op_text.to_string(), "-d".into(), decimals.to_string()];
    if explicit_dim {
        args.push("-D".into());
        args.push(dim.to_string());
    }
    if let Some(z) = z {
        args.push(format!("--height={}", num(z)));
    }
    if let Some(t) = t {
        args.push(format!("--time={}", num(t)));
    }
    if inverse {
        args.push("--inv".into());
    }
    if roundtrip {
        args.push("--roundtrip".into());
    }
    h.distinct(hash_str(&format!("{args:?}{}", hash_str(&text))));
    if h.want_sample() && idx % 20 == 0 {
        h.sample(J::obj().set("kp_arguments", args.clone()).set("input_head", text.lines().take(4).map(|x| x.to_string()).collect::<Vec<_>>()));
    }
    let tuples = read_lines(&text, z, t);
    // for the inverse, feed the forward results so that the input is in the domain
    let (text, tuples) = if inverse {
        match expected(op_text, false, false, &tuples) {
            Ok(fwd) => {
                let mut s = String::new();
                for c in &fwd {
                    s += &format!("{:.4} {:.4} {:.4} {:.4}\n", c[0], c[1], c[2], if c[3].is_nan() { 2000.0 } else { c[3] });
                    if (op_text.contains("utm") || op_text.contains("tmerc")) && !roundtrip && rng.chance(0.15) {
                        // a line far outside the projection's domain: NaN is its answer, and the
                        // lines behind it are transformed as ever
                        s += "50000000 1000000 0 2000\n";
                    }
                }
                let tp = read_lines(&s, z, t);
                (s, tp)
            }
            Err(_) => (text, tuples),
        }
    } else {
        (text, tuples)
    };
    let want = match expected(op_text, inverse, roundtrip, &tuples) {
        Ok(w) => w,
        Err(e) => {
            h.note(&format!("library refuses {op_text}: {e}"));
            return;
        }
    };
    let dim = if explicit_dim {
        dim
    } else {
        h.class("ordinary/dimension-estimated-from-input");
        text.lines()
            .map(|l| l.split_whitespace().take_while(|x| !x.starts_with('#')).count().min(4))
            .max()
            .unwrap_or(0)
    };
    // stdin
    let r = run_kp(kp, &args, Some(&text));
    h.eval(1);
    if let Some(cpu) = r.timed_out {
        v(h, idx, "kp-did-not-terminate", J::obj().set("kp_arguments", args.clone()).set("cpu_seconds", cpu));
        return;
    }
    if r.status != Some(0) {
        v(
            h,
            idx,
            &format!("kp-failed-on-valid-input/status-{}", r.status.map(|s| s.to_string()).unwrap_or("signal".into())),
            J::obj().set("kp_arguments", args.clone()).set("stderr", r.stderr.chars().take(400).collect::<String>()).set("input_head", text.lines().take(3).map(|x| x.to_string()).collect::<Vec<_>>()),
        );
        return;
    }
    h.class(&format!(
        "ordinary/{}",
        match (inverse, roundtrip) {
            (true, true) => "inverse-roundtrip",
            (false, true) => "roundtrip",
            (true, false) => "inverse",
            _ => "forward",
        }
    ));
    if !check_output(h, idx, "stdin", &args, &r.stdout, &want, decimals, dim) {
        return;
    }
    // the same lines in one file, and spread over several files
    let f1 = scratch.join(format!("in_{idx}.txt"));
    std::fs::write(&f1, &text).ok();
    let mut a1 = args.clone();
    a1.push(f1.to_string_lossy().to_string());
    let r1 = run_kp(kp, &a1, None);
    h.eval(1);
    if r1.status != Some(0) || r1.stdout != r.stdout {
        v(h, idx, "file-differs-from-stdin", J::obj().set("kp_arguments", a1).set("status", format!("{:?}", r1.status)).set("stderr", r1.stderr.chars().take(300).collect::<String>()));
        return;
    }
    let lines: Vec<&str> = text.split_inclusive('\n').collect();
    if lines.len() >= 2 {
        let cut = 1 + rng.below(lines.len() - 1);
        let (fa, fb) = (scratch.join(format!("in_{idx}_a.txt")), scratch.join(format!("in_{idx}_b.txt")));
        std::fs::write(&fa, lines[..cut].concat()).ok();
        std::fs::write(&fb, lines[cut..].concat()).ok();
        let mut a2 = args.clone();
        a2.push(fa.to_string_lossy().to_string());
        a2.push(fb.to_string_lossy().to_string());
        let r2 = run_kp(kp, &a2, None);
        h.eval(1);
        if r2.status != Some(0) || r2.stdout != r.stdout {
            v(h, idx, "several-files-differ-from-stdin", J::obj().set("kp_arguments", a2).set("status", format!("{:?}", r2.status)).set("stderr", r2.stderr.chars().take(300).collect::<String>()));
            return;
        }
        h.class("input-spread-over-files");
        let _ = std::fs::remove_file(fa);
        let _ = std::fs::remove_file(fb);
    }
    let _ = std::fs::remove_file(f1);
}

fn batches(h: &H, idx: u64, kp: &std::path::Path, scratch: &std::path::Path, rng: &mut Rng) {
    let sizes: &[usize] = if h.quick() { &[24_999, 25_000, 25_001] } else { &[24_999, 25_000, 25_001, 50_000, 60_001] };
    let nlines = *rng.pick(sizes);
    let (mut op_text, _) = *rng.pick(&[OPERATIONS[0], OPERATIONS[1], OPERATIONS[2], OPERATIONS[3], OPERATIONS[10]]);
    // the time dependent operation needs the fourth column (epochs 2000..2029 in turn)
    let ncols = if op_text.starts_with("helmert") { 4 } else { 3 };
    let mut text = gen_input(rng, nlines, Some(ncols));
    if nlines % 25_000 == 1 && rng.chance(0.4) {
        // the tuple that is alone in the last internal batch fails in the first step of a pipeline
        // whose last step works on the height: its line must read as in one big set
        op_text = "geo:in | utm zone=32 | helmert translation=0,0,10";
        let cut = text.trim_end().rfind('\n').map(|i| i + 1).unwrap_or(0);
        text.truncate(cut);
        text += "0.5 99 100\n";
        h.class("batch-boundary/failing-tuple-alone-in-its-batch");
    }
    let args: Vec<String> = vec![op_text.to_string(), "-d".into(), "4".into(), "-D".into(), ncols.to_string()];
    let tuples = read_lines(&text, None, None);
    let want = match expected(op_text, false, false, &tuples) {
        Ok(w) => w,
        Err(_) => return,
    };
    let f = scratch.join(format!("big_{idx}.txt"));
    std::fs::write(&f, &text).ok();
    let mut a = args.clone();
    a.push(f.to_string_lossy().to_string());
    let r = run_kp(kp, &a, None);
    h.eval(1);
    h.distinct(hash_str(&format!("{nlines}{op_text}{idx}")));
    h.class(&format!("batch-boundary/{nlines}-lines"));
    let _ = std::fs::remove_file(&f);
    if r.status != Some(0) {
        v(
            h,
            idx,
            &format!("kp-failed-on-valid-input/status-{}", r.status.map(|s| s.to_string()).unwrap_or("signal".into())),
            J::obj().set("kp_arguments", a).set("lines", nlines).set("stderr", r.stderr.chars().take(400).collect::<String>()),
        );
        return;
    }
    if !check_output(h, idx, &format!("batch-{nlines}"), &a, &r.stdout, &want, 4, ncols) {
        return;
    }
    // ... and with the library's result for all lines as one set
    if let Some(whole) = expected_whole(op_text, &tuples) {
        check_output(h, idx, &format!("batch-{nlines}/whole-set"), &a, &r.stdout, &whole, 4, ncols);
    }
}

/// Without -D and -d kp estimates the output dimension and the number of decimals from the input.
/// Whatever the estimate is, the format of an output line must not depend on which internal batch
/// of 25000 tuples the line falls into: all lines of one run are printed alike
fn batch_format(h: &H, idx: u64, kp: &std::path::Path, scratch: &std::path::Path, rng: &mut Rng) {
    let extra = 1 + rng.below(3);
    h.distinct(mix(idx, extra as u64));
    // (a) the widest line comes after the first batch; no -D
    {
        let mut text = String::with_capacity(26_000 * 8);
        for _ in 0..25_000 {
            text += "55 12\n";
        }
        for _ in 0..extra {
            text += "56 13 100\n";
        }
        let f = scratch.join(format!("dim_{idx}.txt"));
        std::fs::write(&f, &text).ok();
        let args = vec!["addone".to_string(), "-d".into(), "2".into(), f.to_string_lossy().to_string()];
        let r = run_kp(kp, &args, None);
        let _ = std::fs::remove_file(&f);
        h.eval(1);
        h.class("batch-format/estimated-dimension");
        if r.status != Some(0) {
            v(h, idx, "kp-failed-on-valid-input/batch-format", J::obj().set("kp_arguments", args).set("status", format!("{:?}", r.status)));
            return;
        }
        let widths: std::collections::BTreeSet<usize> = r.stdout.lines().map(|l| l.split_whitespace().count()).collect();
        if widths.len() != 1 {
            v(
                h,
                idx,
                "batch-boundary/estimated-dimension-differs-between-batches",
                J::obj()
                    .set("what", "without -D, lines of the first batch of 25000 and lines of the next batch are printed with different numbers of columns")
                    .set("input", format!("25000 lines '55 12' followed by {extra} line(s) '56 13 100'"))
                    .set("columns_seen", J::Arr(widths.iter().map(|w| J::Int(*w as i64)).collect())),
            );
        }
    }
    // (b) the first value of the first batch is above 1000, the first value of the second below; no -d
    {
        let mut text = String::with_capacity(26_000 * 10);
        for _ in 0..25_000 {
            text += "5500 12\n";
        }
        for _ in 0..extra {
            text += "56 13\n";
        }
        let f = scratch.join(format!("dec_{idx}.txt"));
        std::fs::write(&f, &text).ok();
        let args = vec!["noop".to_string(), "-D".into(), "2".into(), f.to_string_lossy().to_string()];
        let r = run_kp(kp, &args, None);
        let _ = std::fs::remove_file(&f);
        h.eval(1);
        h.class("batch-format/default-decimals");
        if r.status != Some(0) {
            v(h, idx, "kp-failed-on-valid-input/batch-format", J::obj().set("kp_arguments", args).set("status", format!("{:?}", r.status)));
            return;
        }
        let decs: std::collections::BTreeSet<usize> = r
            .stdout
            .lines()
            .filter_map(|l| l.split_whitespace().next().map(|t| t.split_once('.').map(|p| p.1.len()).unwrap_or(0)))
            .collect();
        if decs.len() != 1 {
            v(
                h,
                idx,
                "batch-boundary/default-decimals-differ-between-batches",
                J::obj()
                    .set("what", "without -d, lines of the first batch of 25000 and lines of the next batch are printed with different numbers of decimals")
                    .set("input", format!("25000 lines '5500 12' followed by {extra} line(s) '56 13'"))
                    .set("decimals_seen", J::Arr(decs.iter().map(|w| J::Int(*w as i64)).collect())),
            );
        }
    }
}

fn errors(h: &H, idx: u64, kp: &std::path::Path, scratch: &std::path::Path, rng: &mut Rng) {
    h.distinct(crate::rng::mix(idx, 20));
    // empty input ends normally and prints nothing
    for (label, input) in [("empty", ""), ("only-comments-and-blank-lines", "# nothing here\n\n   \n# still nothing\n")] {
        for with_d in [false, true] {
            let mut args = vec!["utm zone=32".to_string()];
            if with_d {
                args.push("-d".into());
                args.push("3".into());
            }
            let r = run_kp(kp, &args, Some(input));
            h.eval(1);
            h.class(&format!("empty-input/{label}"));
            if r.status != Some(0) || !r.stdout.trim().is_empty() {
                v(
                    h,
                    idx,
                    &format!("empty-input-does-not-end-normally/{label}"),
                    J::obj().set("kp_arguments", args).set("status", format!("{:?}", r.status)).set("killed_by_signal", r.signal).set("stdout", r.stdout.chars().take(200).collect::<String>()).set("stderr", r.stderr.chars().take(300).collect::<String>()),
                );
                return;
            }
        }
    }
    // lines with more than four columns are still one coordinate line each
    {
        let input = "55 12 100 2020 7 8 9\n56 13\n";
        let args = vec!["addone".to_string(), "-d".into(), "2".into(), "-D".into(), "4".into()];
        let r = run_kp(kp, &args, Some(input));
        h.eval(1);
        h.class("more-than-four-columns");
        if r.status != Some(0) || r.stdout.lines().count() != 2 {
            v(
                h,
                idx,
                "line-with-more-than-four-columns",
                J::obj().set("kp_arguments", args).set("input", input).set("status", format!("{:?}", r.status)).set("stdout", r.stdout.chars().take(200).collect::<String>()).set("stderr", r.stderr.chars().take(300).collect::<String>()),
            );
            return;
        }
    }
    // invalid operations and unreadable files: message on stderr, non-zero status, not a panic
    let bad_ops = ["nosuchoperator", "utm", "utm zone=99", "cart ellps=nosuch", "helmert x=abc", "inv", "a | | b", "x:y", "gridshift grids=nothere.gsb"];
    let op = *rng.pick(&bad_ops);
    let r = run_kp(kp, &[op.to_string()], Some("55 12\n"));
    h.eval(1);
    h.class("invalid-operation");
    let orderly = matches!(r.status, Some(s) if s != 0 && s != 101) && !r.stderr.trim().is_empty() && !r.signal && !r.stderr.contains("panicked");
    if !orderly {
        v(
            h,
            idx,
            "invalid-operation-not-reported-orderly",
            J::obj().set("operation", op).set("status", format!("{:?}", r.status)).set("stderr", r.stderr.chars().take(400).collect::<String>()).set("stdout", r.stdout.chars().take(100).collect::<String>()),
        );
        return;
    }
    let missing = scratch.join("does_not_exist.txt").to_string_lossy().to_string();
    let r = run_kp(kp, &["addone".to_string(), missing.clone()], None);
    h.eval(1);
    h.class("unreadable-file");
    let orderly = matches!(r.status, Some(s) if s != 0 && s != 101) && !r.stderr.trim().is_empty() && !r.stderr.contains("panicked");
    if !orderly {
        v(h, idx, "unreadable-file-not-reported-orderly", J::obj().set("file", missing).set("status", format!("{:?}", r.status)).set("stderr", r.stderr.chars().take(400).collect::<String>()));
        return;
    }
    // files that open but cannot be read as text: a directory, and bytes that are not UTF-8 at a
    // random line (alone, and after a readable file): an error and a non-zero status, never a
    // silent end of the data with status 0
    let dir = scratch.join(format!("a_directory_{idx}"));
    std::fs::create_dir_all(&dir).ok();
    let r = run_kp(kp, &["addone".to_string(), dir.to_string_lossy().to_string()], None);
    h.eval(1);
    h.class("unreadable-file/directory");
    if r.status == Some(0) || r.stderr.contains("panicked") {
        v(h, idx, "unreadable-file-not-reported-orderly/directory", J::obj().set("status", format!("{:?}", r.status)).set("stdout", r.stdout.chars().take(100).collect::<String>()).set("stderr", r.stderr.chars().take(400).collect::<String>()));
        let _ = std::fs::remove_dir(&dir);
        return;
    }
    let _ = std::fs::remove_dir(&dir);
    let n = 1 + rng.below(6);
    let bad_at = rng.below(n);
    let mut bytes: Vec<u8> = Vec::new();
    for i in 0..n {
        if i == bad_at {
            match rng.below(3) {
                0 => bytes.extend_from_slice(b"# K\xF8benhavn\n".as_slice()),
                1 => bytes.extend_from_slice(b"55 12 \xFF\n".as_slice()),
                _ => bytes.extend_from_slice(b"\xC3\n".as_slice()),
            }
        } else {
            bytes.extend_from_slice(format!("{} {}\n", 50 + i, 10 + i).as_bytes());
        }
    }
    let bad = scratch.join(format!("not_utf8_{idx}.txt"));
    std::fs::write(&bad, &bytes).ok();
    let good = scratch.join(format!("readable_{idx}.txt"));
    std::fs::write(&good, "55 12\n56 13\n").ok();
    for with_good_first in [false, true] {
        let mut args = vec!["addone".to_string(), "-d".into(), "2".into()];
        if with_good_first {
            args.push(good.to_string_lossy().to_string());
        }
        args.push(bad.to_string_lossy().to_string());
        let r = run_kp(kp, &args, None);
        h.eval(1);
        h.class("unreadable-file/not-utf8");
        if r.status == Some(0) || r.stderr.contains("panicked") {
            v(
                h,
                idx,
                "unreadable-file-not-reported-orderly/not-utf8",
                J::obj().set("kp_arguments", args).set("lines_in_file", n).set("bad_line", bad_at).set("status", format!("{:?}", r.status)).set("stdout_lines", r.stdout.lines().count()).set("stderr", r.stderr.chars().take(400).collect::<String>()),
            );
            break;
        }
    }
    let _ = std::fs::remove_file(&bad);
    let _ = std::fs::remove_file(&good);
}
