//! C03 - a pipeline is its steps in order; its inverse is the inverted steps in reverse; the
//! modifiers inv / omit_fwd / omit_inv are local to the step that carries them.
//!
//! History + executable model: the generator owns the AST (it never parses its own text), the
//! reference interpreter applies every elementary step as a stand-alone operator through the
//! same Context, and the trace hook shows which steps the library actually executed.

use crate::harness::{hash_str, H};
use crate::json::J;
use crate::rng::Rng;
use crate::util::*;
use geodesy::authoring::*;
use geodesy::verif::Event;

#[derive(Clone, Debug)]
pub enum Body {
    Elem(String),
    /// a macro: its resource name, its body, and whether the body is a single step (no bars)
    Macro { name: String, steps: Vec<Step>, single: bool },
}

#[derive(Clone, Debug)]
pub struct Step {
    pub body: Body,
    pub inv: bool,
    pub omit_fwd: bool,
    pub omit_inv: bool,
}

pub fn elementary(rng: &mut Rng) -> String {
    match rng.below(14) {
        0 => "addone".into(),
        1 | 2 => format!(
            "helmert x={} y={} z={} s={}",
            rng.int(-50, 50),
            rng.int(-50, 50),
            rng.int(-50, 50),
            rng.int(-9, 9) * 100000
        ),
        3 => "axisswap order=2,1".into(),
        4 => "axisswap order=1,-2,3".into(),
        5 => "axisswap order=3,1,2".into(),
        6 => "unitconvert xy_in=km xy_out=m".into(),
        7 => "unitconvert xy_in=deg xy_out=rad z_in=ft z_out=m".into(),
        8 => "adapt from=neuf".into(),
        9 => "adapt to=wnuf_deg".into(),
        10 => "cart ellps=intl".into(),
        11 => format!("tmerc lon_0={} k_0=0.9996", rng.int(-20, 20)),
        12 => "helmert x=3 rx=2000 ry=-1000 rz=500 convention=position_vector exact".into(),
        _ => "noop".into(),
    }
}

pub struct Gen<'a> {
    pub rng: &'a mut Rng,
    pub resources: Vec<(String, String)>,
    pub max_depth: usize,
    pub counter: usize,
    /// false while the body of a single-step macro is generated (an operator without an inverse
    /// cannot stand there: the invocation may carry `inv`)
    pub one_way_ok: bool,
}

impl Gen<'_> {
    fn modifiers(&mut self, s: &mut Step, allow_omit: bool) {
        s.inv = self.rng.chance(0.35);
        if allow_omit {
            s.omit_fwd = self.rng.chance(0.15);
            s.omit_inv = self.rng.chance(0.15);
        }
    }

    pub fn step(&mut self, depth: usize, allow_omit: bool) -> Step {
        let mut s = Step {
            body: Body::Elem(String::new()),
            inv: false,
            omit_fwd: false,
            omit_inv: false,
        };
        if depth < self.max_depth && self.rng.chance(0.3) {
            // a macro: single-step body or pipeline body
            let single = self.rng.chance(0.35);
            let mut steps = if single {
                let keep = self.one_way_ok;
                self.one_way_ok = false;
                let v = vec![self.step(depth + 1, true)];
                self.one_way_ok = keep;
                v
            } else {
                // (now and then a pipeline of a single, directional step: "< addone")
                let n = if self.rng.chance(0.15) { 1 } else { 2 + self.rng.below(3) };
                let mut v: Vec<Step> = (0..n).map(|_| self.step(depth + 1, true)).collect();
                if n == 1 && !v[0].omit_fwd && !v[0].omit_inv {
                    if self.rng.chance(0.5) {
                        v[0].omit_fwd = true;
                    } else {
                        v[0].omit_inv = true;
                    }
                }
                v
            };
            let name = format!("t:m{}", self.counter);
            // a macro with arguments: one step of the body takes its values from the invocation
            // (`$p`, and `$q(default)`); the AST holds the step with the values filled in
            let parametrised = self.rng.chance(0.4);
            // (values and parameter names unique to this macro: nothing of an enclosing invocation
            // can be mistaken for them)
            let nn = self.counter;
            let (pv, qv) = (1000 + nn as i64, -(2000 + nn as i64));
            if parametrised {
                let mut ps = Step {
                    body: Body::Elem(format!("helmert x={pv} y={qv}")),
                    inv: false,
                    omit_fwd: false,
                    omit_inv: false,
                };
                self.modifiers(&mut ps, true);
                if single {
                    steps = vec![ps];
                } else {
                    let at = self.rng.below(steps.len() + 1);
                    steps.insert(at, ps);
                }
            }
            self.counter += 1;
            let mut text = if single {
                let mut pick = self.rng.clone();
                let t = render_step(&steps[0], &mut pick, false).1;
                *self.rng = pick;
                t
            } else {
                let mut pick = self.rng.clone();
                let t = render_pipeline(&steps, &mut pick);
                *self.rng = pick;
                t
            };
            let mut invocation = name.clone();
            if parametrised {
                text = text.replace(&format!("x={pv}"), &format!("x=$p{nn}")).replace(&format!("y={qv}"), &format!("y=$q{nn}({qv})"));
                invocation += &format!(" p{nn}={pv}");
                if self.rng.chance(0.5) {
                    invocation += &format!(" q{nn}={qv}");
                }
            }
            self.resources.push((name, text));
            s.body = Body::Macro { name: invocation, steps, single };
        } else {
            s.body = Body::Elem(elementary(self.rng));
        }
        self.modifiers(&mut s, allow_omit);
        if self.one_way_ok && allow_omit && matches!(s.body, Body::Elem(_)) && self.rng.chance(0.06) {
            // an operator without an inverse as a step of a pipeline: never carrying `inv` itself
            // (that is refused at instantiation), usually marked forward-only; where it is not,
            // the inverse run of the pipeline reports 0 and leaves the data alone at that step
            s.body = Body::Elem(self.rng.pick(&["curvature mean", "curvature gaussian ellps=intl", "gravity grs80"]).to_string());
            s.inv = false;
            s.omit_fwd = false;
            s.omit_inv = self.rng.chance(0.7);
        }
        s
    }
}

/// Render one step. Returns (separator sugar consumed, text): when `sugar` is allowed, one of
/// the omit flags may be expressed by the separator in front of the step ("<" or ">").
pub fn render_step(s: &Step, rng: &mut Rng, sugar: bool) -> (Option<char>, String) {
    let base = match &s.body {
        Body::Elem(d) => d.clone(),
        Body::Macro { name, .. } => name.clone(),
    };
    let mut words: Vec<String> = base.split_whitespace().map(|x| x.to_string()).collect();
    let mut sep = None;
    let mut flags: Vec<String> = Vec::new();
    if s.inv {
        flags.push(if rng.chance(0.25) { format!("inv={}", rng.pick(&["true", "true", "True", "TRUE"])) } else { "inv".into() });
    }
    let mut of = s.omit_fwd;
    let mut oi = s.omit_inv;
    if sugar && (of || oi) && rng.chance(0.5) {
        if of && (!oi || rng.chance(0.5)) {
            sep = Some('<');
            of = false;
        } else {
            sep = Some('>');
            oi = false;
        }
    }
    if of {
        flags.push(if rng.chance(0.25) { format!("omit_fwd={}", rng.pick(&["true", "true", "True", "TRUE"])) } else { "omit_fwd".into() });
    }
    if oi {
        flags.push(if rng.chance(0.25) { format!("omit_inv={}", rng.pick(&["true", "true", "True", "TRUE"])) } else { "omit_inv".into() });
    }
    rng.shuffle(&mut flags);
    let mut name_at = 0;
    for f in flags {
        // prefix (only the bare spelling can precede the name), infix or suffix
        let bare = !f.contains('=');
        let at = match rng.below(3) {
            0 if bare => {
                name_at += 1;
                0
            }
            1 => name_at + 1 + rng.below(words.len() - name_at),
            _ => words.len(),
        };
        words.insert(at.min(words.len()), f);
    }
    (sep, words.join(" "))
}

pub fn render_pipeline(steps: &[Step], rng: &mut Rng) -> String {
    let mut out = String::new();
    for (i, s) in steps.iter().enumerate() {
        let (mut sep, mut text) = render_step(s, rng, true);
        // a pipeline of one directional step is written with the sugar ("< addone"): padded
        // with "| noop" it would be a pipeline of two steps
        let mut tries = 0;
        while steps.len() == 1 && sep.is_none() && (s.omit_fwd || s.omit_inv) && tries < 40 {
            (sep, text) = render_step(s, rng, true);
            tries += 1;
        }
        match sep {
            Some(c) => {
                out.push(' ');
                out.push(c);
                out.push(' ');
            }
            None => {
                if i > 0 {
                    out += " | ";
                }
            }
        }
        out += &text;
    }
    // a pipeline of one step still has to look like a pipeline
    if steps.len() == 1 && !out.contains(['|', '<', '>']) {
        out += " | noop";
    }
    out
}

/// What the model expects the trace to show for one visited step
#[derive(Debug, Clone, PartialEq)]
pub struct Seen {
    pub skipped: bool,
    pub count: usize,
}

pub struct Model<'a> {
    pub ctx: &'a mut Minimal,
    pub handles: std::collections::BTreeMap<String, OpHandle>,
    pub events: Vec<Seen>,
    pub failed: Option<String>,
}

impl Model<'_> {
    fn handle(&mut self, def: &str) -> Option<OpHandle> {
        if let Some(h) = self.handles.get(def) {
            return Some(*h);
        }
        match self.ctx.op(def) {
            Ok(h) => {
                self.handles.insert(def.to_string(), h);
                Some(h)
            }
            Err(e) => {
                self.failed = Some(format!("stand-alone step '{def}' failed to instantiate: {e}"));
                None
            }
        }
    }

    pub fn pipeline(&mut self, steps: &[Step], dir: D, data: &mut Vec<Coor4D>) -> usize {
        let mut n = usize::MAX;
        let order: Vec<&Step> = if dir == D::F {
            steps.iter().collect()
        } else {
            steps.iter().rev().collect()
        };
        for s in order {
            let (of, oi) = effective_omits(s);
            if (dir == D::F && of) || (dir == D::I && oi) {
                self.events.push(Seen { skipped: true, count: 0 });
                continue;
            }
            let m = self.step(s, dir, data);
            self.events.push(Seen { skipped: false, count: m });
            n = n.min(m);
        }
        if n == usize::MAX {
            n = data.len();
        }
        n
    }

    /// Apply one step in pipeline direction `dir`
    pub fn step(&mut self, s: &Step, dir: D, data: &mut Vec<Coor4D>) -> usize {
        let d = if s.inv { dir.flip() } else { dir };
        match &s.body {
            Body::Elem(def) => {
                let Some(h) = self.handle(def) else {
                    return 0;
                };
                apply_set(&*self.ctx, h, d, data)
            }
            Body::Macro { steps, single, .. } => {
                if *single {
                    // the expansion is the single step itself (its omit flags were merged
                    // into the invoking step by `effective_omits`)
                    self.step(&steps[0], d, data)
                } else {
                    self.pipeline(steps, d, data)
                }
            }
        }
    }
}

/// A macro with a single-step body expands to that step: its omit flags become the invoking
/// step's flags
pub fn effective_omits(s: &Step) -> (bool, bool) {
    let mut of = s.omit_fwd;
    let mut oi = s.omit_inv;
    if let Body::Macro { steps, single: true, .. } = &s.body {
        let (a, b) = effective_omits(&steps[0]);
        of |= a;
        oi |= b;
    }
    (of, oi)
}

fn probes(rng: &mut Rng) -> Vec<Coor4D> {
    let n = 1 + rng.below(5);
    (0..n)
        .map(|i| {
            if i == 1 {
                // far from any central meridian the generator uses: tmerc steps fail on it
                Coor4D([2.9, 0.3, 12.5, 2001.5])
            } else {
                Coor4D([
                    rng.range(-0.4, 0.4),
                    rng.range(-1.2, 1.2),
                    rng.range(-50.0, 900.0),
                    rng.short_decimal(1990.0, 2030.0, 2),
                ])
            }
        })
        .collect()
}

pub fn run(h: &H) {
    let n = h.budget(32_000, 3_200_000);
    let max_depth = if h.quick() { 4 } else { 8 };
    for idx in h.cases(n) {
        let mut rng = h.rng(idx);
        let mut g = Gen {
            rng: &mut rng,
            resources: Vec::new(),
            max_depth,
            counter: 0,
            one_way_ok: true,
        };
        let nsteps = 2 + g.rng.below(if idx % 7 == 0 { 7 } else { 3 });
        let steps: Vec<Step> = (0..nsteps).map(|_| g.step(0, true)).collect();
        let resources = g.resources.clone();
        let text = render_pipeline(&steps, &mut rng);
        let desc = format!("{text}   {resources:?}");
        h.guard(idx, &desc, || one(h, idx, &steps, &resources, &text, &mut rng));
    }
}

fn classes(h: &H, steps: &[Step]) {
    for s in steps {
        let kind = match &s.body {
            Body::Elem(_) => "elementary",
            Body::Macro { single: true, .. } => "macro-single",
            Body::Macro { .. } => "macro-pipeline",
        };
        if let Body::Elem(def) = &s.body {
            if def.starts_with("curvature") || def.starts_with("gravity") {
                h.class(if s.omit_inv { "one-way-step/forward-only" } else { "one-way-step/unmarked" });
            }
        }
        if s.inv {
            h.class(&format!("inv/{kind}"));
        }
        if s.omit_fwd {
            h.class(&format!("omit_fwd/{kind}"));
        }
        if s.omit_inv {
            h.class(&format!("omit_inv/{kind}"));
        }
        if let Body::Macro { steps, .. } = &s.body {
            classes(h, steps);
        }
    }
}

fn one(h: &H, idx: u64, steps: &[Step], resources: &[(String, String)], text: &str, rng: &mut Rng) {
    let mut ctx = Minimal::new();
    for (k, v) in resources {
        ctx.register_resource(k, v);
    }
    let op = match ctx.op(text) {
        Ok(op) => op,
        Err(e) => {
            h.violation(
                idx,
                "C03/instantiation-failed",
                J::obj()
                    .set("pipeline", text)
                    .set("resources", J::Arr(resources.iter().map(|(k, v)| J::s(format!("{k} = {v}"))).collect()))
                    .set("error", format!("{e}")),
            );
            return;
        }
    };
    classes(h, steps);
    h.distinct(hash_str(&format!("{text}{resources:?}")));
    if h.want_sample() && idx % 101 == 0 {
        h.sample(
            J::obj()
                .set("pipeline", text)
                .set("resources", J::Arr(resources.iter().map(|(k, v)| J::s(format!("{k} = {v}"))).collect())),
        );
    }
    let set = probes(rng);
    for d in [D::F, D::I] {
        // the library, with the trace hook recording what it executes
        let mut got = set.clone();
        geodesy::verif::trace_start();
        let got_n = apply_set(&ctx, op, d, &mut got);
        let trace = geodesy::verif::trace_take();
        // the model
        let mut want = set.clone();
        let mut m = Model {
            ctx: &mut ctx,
            handles: Default::default(),
            events: Vec::new(),
            failed: None,
        };
        let want_n = m.pipeline(steps, d, &mut want);
        let model_events = m.events.clone();
        if let Some(f) = m.failed {
            h.note(&format!("model could not run: {f}"));
            return;
        }
        h.eval(set.len() as u64);
        let detail = |what: &str| {
            J::obj()
                .set("what", what)
                .set("pipeline", text)
                .set("resources", J::Arr(resources.iter().map(|(k, v)| J::s(format!("{k} = {v}"))).collect()))
                .set("direction", d.name())
                .set("input", J::Arr(set.iter().map(|c| J::coords(&c.0)).collect()))
                .set("library", J::Arr(got.iter().map(|c| J::coords(&c.0)).collect()))
                .set("model", J::Arr(want.iter().map(|c| J::coords(&c.0)).collect()))
                .set("library_count", got_n)
                .set("model_count", want_n)
        };
        let mut bad = false;
        for i in 0..set.len() {
            if !same_bits(&got[i].0, &want[i].0) {
                h.violation(idx, &format!("C03/result-differs/{}", d.name()), detail("the pipeline does not equal its steps applied one after another"));
                bad = true;
                break;
            }
        }
        if !bad && got_n != want_n {
            h.violation(idx, &format!("C03/count-differs/{}", d.name()), detail("count is not the minimum over the executed steps"));
            bad = true;
        }
        // executed step sequence: visited steps with skipped flag and per-step count
        let lib_events: Vec<Seen> = trace
            .iter()
            .filter_map(|e| match e {
                Event::Step { skipped, count, .. } => Some(Seen { skipped: *skipped, count: *count }),
                _ => None,
            })
            .collect();
        h.class_n("trace/step-events", lib_events.len() as u64);
        if !bad && lib_events != model_events {
            h.violation(
                idx,
                &format!("C03/executed-steps-differ/{}", d.name()),
                detail("same numbers, but the steps executed/skipped (trace hook) differ from the model")
                    .set("library_steps", format!("{lib_events:?}"))
                    .set("model_steps", format!("{model_events:?}")),
            );
        }
        if model_events.iter().all(|e| e.skipped) {
            h.class("all-steps-omitted");
        }
        if want_n < set.len() {
            h.class("failing-step-lowers-count");
        }
    }
}
