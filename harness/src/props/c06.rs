//! C06 - ellipsoid geometry is coherent: the built-in table, derived parameters,
//! geographic <-> cartesian, geodesics, auxiliary latitudes and meridian arcs, all against
//! independent reference formulas computed in the harness.

use crate::catalog::{self, D2R};
use crate::geo::{self, Ell, GRS80};
use crate::harness::{hash_str, H};
use crate::json::J;
use crate::rng::{mix, Rng};
use crate::util::*;
use geodesy::authoring::*;
use std::f64::consts::{FRAC_PI_2, PI};

pub fn run(h: &H) {
    // the finite part: every table entry, exhaustively (shard 0 of each run)
    if h.cfg.only.is_none() || h.cfg.only == Some(u64::MAX - 1) {
        h.guard(u64::MAX - 1, "built-in ellipsoid table", || table(h));
        if h.cfg.only.is_some() {
            return;
        }
    }
    let n = h.budget(8_000, 800_000);
    for idx in h.cases(n) {
        let mut rng = h.rng(idx);
        let kind = idx % 5;
        h.guard(idx, &format!("ellipsoid geometry kind {kind}"), || match kind {
            0 if (idx / 5) % 2 == 0 => cart_operator(h, idx, &mut rng),
            0 => geocart(h, idx, &mut rng),
            1 | 2 => geodesics(h, idx, &mut rng),
            3 => latitudes(h, idx, &mut rng),
            _ => meridians(h, idx, &mut rng),
        });
    }
}

fn v(h: &H, idx: u64, sig: &str, d: J) {
    h.violation(idx, &format!("C06/{sig}"), d);
}

fn table(h: &H) {
    let idx = u64::MAX - 1;
    let lib = geodesy::verif::ellipsoid_table();
    let mine: Vec<&str> = geo::PUBLISHED_ELLIPSOIDS.iter().map(|e| e.0).collect();
    for row in &lib {
        let name = row.0;
        h.eval(1);
        h.distinct(hash_str(name));
        if !mine.contains(&name) {
            h.uncovered(&format!("ellipsoid '{name}' is in the library table but not in the harness reference table"));
            continue;
        }
        let want = geo::published(name).unwrap();
        let e = match Ellipsoid::named(name) {
            Ok(e) => e,
            Err(err) => {
                v(h, idx, &format!("table/{name}/cannot-be-instantiated"), J::obj().set("error", format!("{err}")));
                continue;
            }
        };
        h.class("table/instantiated");
        match TriaxialEllipsoid::named(name) {
            Ok(t) => {
                if t.semimajor_axis() != e.semimajor_axis() || t.flattening() != e.flattening() || t.semimedian_axis() != e.semimajor_axis() {
                    v(h, idx, &format!("table/{name}/triaxial-differs"), J::obj().set("biaxial_a", e.a()).set("triaxial_a_ay", J::coords(&[t.semimajor_axis(), t.semimedian_axis()])));
                }
            }
            Err(err) => v(h, idx, &format!("table/{name}/triaxial-cannot-be-instantiated"), J::obj().set("error", format!("{err}"))),
        }
        let rf = |f: f64| if f == 0.0 { 0.0 } else { 1.0 / f };
        let da = (e.a() - want.a).abs() / want.a;
        let drf = (rf(e.f()) - rf(want.f)).abs() / rf(want.f).max(1.0);
        if !(da <= 1e-12) || !(drf <= 1e-9) {
            v(
                h,
                idx,
                &format!("table/{name}/not-the-published-values"),
                J::obj().set("library_a_rf", J::coords(&[e.a(), rf(e.f())])).set("published_a_rf", J::coords(&[want.a, rf(want.f)])),
            );
        }
        derived(h, idx, name, &e);
    }
    for name in mine {
        if !lib.iter().any(|r| r.0 == name) {
            v(h, idx, &format!("table/{name}/missing-from-library"), J::obj().set("name", name));
        }
    }
}

/// Derived shape parameters satisfy their defining identities
fn derived(h: &H, idx: u64, name: &str, e: &Ellipsoid) {
    let (a, f) = (e.a(), e.f());
    let b = a * (1.0 - f);
    let es = f * (2.0 - f);
    let checks: [(&str, f64, f64); 9] = [
        ("semiminor_axis", e.semiminor_axis(), b),
        ("eccentricity_squared", e.eccentricity_squared(), es),
        ("eccentricity", e.eccentricity(), es.sqrt()),
        ("third_flattening", e.third_flattening(), f / (2.0 - f)),
        ("second_flattening", e.second_flattening(), (a - b) / b),
        ("second_eccentricity_squared", e.second_eccentricity_squared(), es / (1.0 - es)),
        ("aspect_ratio", e.aspect_ratio(), a / b),
        ("polar_radius_of_curvature", e.polar_radius_of_curvature(), a * a / b),
        ("linear_eccentricity", e.linear_eccentricity(), (a * a - b * b).sqrt()),
    ];
    for (what, got, want) in checks {
        h.eval(1);
        let tol = 8.0 * geo::ulp(want.abs().max(1e-300)) + if what == "linear_eccentricity" { 1e-9 * a } else { 0.0 };
        if !((got - want).abs() <= tol) {
            v(h, idx, &format!("derived-parameter/{what}"), J::obj().set("ellipsoid", name).set("a", a).set("f", f).set("library", got).set("definition", want));
        }
    }
    // curvatures at the equator and the pole
    let m0 = e.meridian_radius_of_curvature(0.0);
    let n0 = e.prime_vertical_radius_of_curvature(0.0);
    let mp = e.meridian_radius_of_curvature(FRAC_PI_2);
    let np = e.prime_vertical_radius_of_curvature(FRAC_PI_2);
    let c = a * a / b;
    let rel = |x: f64, y: f64| (x - y).abs() / y;
    if !(rel(m0, b * b / a) <= 1e-14 && rel(n0, a) <= 1e-14 && rel(mp, c) <= 1e-14 && rel(np, c) <= 1e-14) {
        v(h, idx, "derived-parameter/curvatures", J::obj().set("ellipsoid", name).set("M0_N0_Mp_Np", J::coords(&[m0, n0, mp, np])).set("expected", J::coords(&[b * b / a, a, c, c])));
    }
}

fn pick(rng: &mut Rng, spheres: bool) -> (String, Ell, Ellipsoid) {
    let (n, e) = catalog::pick_ellps(rng, spheres);
    let lib = Ellipsoid::named(&n).unwrap_or(lib_ell(&e));
    // the reference uses exactly the library's (a, f)
    let ell = Ell { a: lib.a(), f: lib.f() };
    (n, ell, lib)
}

fn geocart(h: &H, idx: u64, rng: &mut Rng) {
    let (name, ell, e) = pick(rng, true);
    let sz = catalog::size(&ell);
    h.class("geocart");
    h.distinct(mix(hash_str(&name), idx));
    if h.want_sample() {
        h.sample(J::obj().set("what", "geographic <-> cartesian").set("ellipsoid", &name).set("a", ell.a).set("f", ell.f));
    }
    if rng.chance(0.02) {
        derived(h, idx, &name, &e);
    }
    for _ in 0..30 {
        let lon = rng.range(-PI, PI);
        let lat = catalog::edge_biased_exact(rng) * FRAC_PI_2;
        let hgt = rng.range(-1.0e4, 1.0e5) * sz;
        let p = Coor4D([lon, lat, hgt, 2000.0]);
        let c = e.cartesian(&p);
        // against the reference forward formula
        let r = ell.to_cart(lon, lat, hgt);
        let d = ((c[0] - r[0]).powi(2) + (c[1] - r[1]).powi(2) + (c[2] - r[2]).powi(2)).sqrt();
        h.eval(2);
        if !(d <= 1.0e-8 * sz) {
            v(h, idx, "cartesian-differs-from-definition", J::obj().set("ellipsoid", &name).set("input", J::bits(&p.0)).set("library", J::coords(&c.0)).set("definition", J::coords(&r)));
            return;
        }
        // single step closed form: 1 cm
        let g = e.geographic(&c);
        let back = ell.ground(lon, lat, g[0], g[1]) + (g[2] - hgt).abs();
        h.max("geographic(cartesian(p)) - p (m)", back / sz, || format!("{name} at {}", fmt4(&p.0)));
        if !(back <= 1.0e-2 * sz) || g[3].to_bits() != p[3].to_bits() {
            v(h, idx, "geographic-does-not-invert-cartesian", J::obj().set("ellipsoid", &name).set("input", J::bits(&p.0)).set("cartesian", J::coords(&c.0)).set("back", J::bits(&g.0)).set("difference_m", back));
            return;
        }
        // height zero satisfies the ellipsoid equation
        let s = e.cartesian(&Coor4D([lon, lat, 0.0, 0.0]));
        let b = ell.b();
        let q = (s[0] * s[0] + s[1] * s[1]) / (ell.a * ell.a) + s[2] * s[2] / (b * b);
        h.max("|X²/a²+Y²/a²+Z²/b² - 1| at h=0", (q - 1.0).abs(), || format!("{name} at {lon} {lat}"));
        if !((q - 1.0).abs() <= 1.0e-12) {
            v(h, idx, "surface-point-off-the-ellipsoid", J::obj().set("ellipsoid", &name).set("lon_lat", J::coords(&[lon, lat])).set("equation_value", q));
            return;
        }
    }
}

/// The `cart` operator (Fukushima's inverse): forward against the defining formula, inverse of
/// forward to 1 micrometre at heights from -10 km to 10 000 km, poles, equator and the Z axis included
fn cart_operator(h: &H, idx: u64, rng: &mut Rng) {
    let (name, ell, _) = pick(rng, true);
    let sz = catalog::size(&ell);
    let mut ctx = Minimal::new();
    let def = format!("cart ellps={name}");
    let Ok(op) = ctx.op(&def) else {
        v(h, idx, "cart-operator/instantiation", J::obj().set("definition", &def));
        return;
    };
    // the ellipsoid the operator really uses (a,rf goes through a decimal text)
    let used = Ell { a: ell.a, f: ell.f };
    h.class("cart-operator");
    h.distinct(mix(hash_str(&def), idx));
    for _ in 0..30 {
        let lon = if rng.chance(0.1) { *rng.pick(&[0.0, PI, -PI, FRAC_PI_2, -FRAC_PI_2]) } else { rng.range(-PI, PI) };
        let mut lat = catalog::edge_biased_exact(rng) * FRAC_PI_2;
        if rng.chance(0.1) {
            // millimetres to metres from the axis
            lat = (FRAC_PI_2 - 10f64.powf(rng.range(-12.0, -5.0))) * if rng.chance(0.5) { 1.0 } else { -1.0 };
        }
        // beyond 100 km the statement is the millimetre class, on the built-in ellipsoids
        let far = rng.chance(0.3) && !name.contains(',');
        let hgt = if far { rng.range(1.0e5, 1.0e7) * sz } else { rng.range(-1.0e4, 1.0e5) * sz };
        let p = [lon, lat, hgt, 2000.0];
        let (c, n1) = apply1(&ctx, op, D::F, p);
        let r = used.to_cart(lon, lat, hgt);
        let d = ((c[0] - r[0]).powi(2) + (c[1] - r[1]).powi(2) + (c[2] - r[2]).powi(2)).sqrt();
        h.eval(2);
        if n1 != 1 || !(d <= 1.0e-8 * sz * (1.0 + hgt.abs() / (ell.a))) {
            v(h, idx, "cart-operator/forward-differs-from-definition", J::obj().set("definition", &def).set("input", J::bits(&p)).set("library", J::coords(&c)).set("reference", J::coords(&r)).set("count", n1));
            return;
        }
        let (g, n2) = apply1(&ctx, op, D::I, c);
        let back = used.ground(lon, lat, g[0], g[1]) + (g[2] - hgt).abs();
        let pole = lat.abs() == FRAC_PI_2;
        h.class(if pole { "cart-operator/exact-pole" } else if lat == 0.0 { "cart-operator/exact-equator" } else if far { "cart-operator/far" } else { "cart-operator/near" });
        h.max(if far { "cart inv(fwd(p)) - p, 100..10000 km (m)" } else { "cart inv(fwd(p)) - p, -10..100 km (m)" }, back / sz, || format!("{def} at {}", fmt4(&p)));
        let tol = if far { 2.0e-3 * sz } else { 1.0e-6 * sz };
        if n2 != 1 || !(back <= tol) || g[3].to_bits() != p[3].to_bits() {
            v(
                h,
                idx,
                &format!("cart-operator/inverse-does-not-undo-forward/{}", if pole { "pole" } else if far { "far" } else { "near" }),
                J::obj().set("definition", &def).set("input", J::bits(&p)).set("cartesian", J::coords(&c)).set("back", J::bits(&g)).set("difference_m", back).set("count", n2),
            );
            return;
        }
    }
    // points on the Z axis itself, both signs: latitude +-90, height |Z| - b
    let b = ell.b();
    for z in [b, -b, b + 1234.5 * sz, -(b + 1234.5 * sz), 0.5 * b, -0.5 * b] {
        let (g, n) = apply1(&ctx, op, D::I, [0.0, 0.0, z, 1.0]);
        h.eval(1);
        h.class("cart-operator/z-axis");
        let ok = n == 1 && (g[1] - FRAC_PI_2.copysign(z)).abs() < 1e-12 && (g[2] - (z.abs() - b)).abs() <= 1.0e-6 * sz;
        if !ok {
            v(h, idx, "cart-operator/z-axis", J::obj().set("definition", &def).set("Z", z).set("semiminor_axis", b).set("output", J::coords(&g)).set("count", n));
            return;
        }
    }
}

fn geodesics(h: &H, idx: u64, rng: &mut Rng) {
    let (name, ell, e) = pick(rng, true);
    let sz = catalog::size(&ell);
    let fscale = (ell.f / GRS80.f).powi(4).max(1.0);
    let maxd = 1.9e7 * ell.a / 6378137.0;
    h.distinct(mix(hash_str(&name), idx));
    let what = (idx / 5) % 10;
    // (now and then exactly on the equator: the formulas have a 0/0 there)
    let (lon1, lat1) = (rng.range(-PI, PI), if rng.chance(0.06) { 0.0 } else { rng.range(-89.0, 89.0) * D2R });
    let p1 = Coor2D::raw(lon1, lat1);
    match what {
        // towards a pole: the inverse problem to a target at, or within metres of, a pole, and the
        // direct problem back along the azimuth and distance it gave
        0 if (idx / 50) % 3 == 0 => {
            h.class("geodesic/to-a-pole");
            let off = match rng.below(4) {
                0 => 0.0,
                _ => 10f64.powf(rng.range(-10.0, -4.0)),
            };
            let lat2 = (FRAC_PI_2 - off) * if rng.chance(0.5) { 1.0 } else { -1.0 };
            let p2 = Coor2D::raw(rng.range(-PI, PI), lat2);
            let inv = e.geodesic_inv(&p1, &p2);
            h.eval(1);
            if inv[3] >= 1000.0 || inv[2] > maxd {
                return;
            }
            let d = e.geodesic_fwd(&p1, inv[0], inv[2]);
            h.eval(1);
            // (the chord between the two points: near a pole the longitude means little)
            let (ca, cb) = (ell.to_cart(p2[0], p2[1], 0.0), ell.to_cart(d[0], d[1], 0.0));
            let miss = ((ca[0] - cb[0]).powi(2) + (ca[1] - cb[1]).powi(2) + (ca[2] - cb[2]).powi(2)).sqrt();
            h.max("geodesic to a pole: direct(inverse) misses the target by (m)", miss / sz, || format!("{name} from {lon1} {lat1} to lat {lat2}"));
            if d[3] >= 1000.0 || !(miss <= 1.0e-4 * sz) {
                v(
                    h,
                    idx,
                    "direct-and-inverse-inconsistent/towards-a-pole",
                    J::obj().set("ellipsoid", &name).set("from_lon_lat", J::coords(&[lon1, lat1])).set("target_lon_lat", J::coords(&[p2[0], p2[1]])).set("inverse_result", J::coords(&inv.0)).set("direct_result", J::coords(&d.0)).set("miss_m", miss),
                );
            }
        }
        // direct and inverse are mutually consistent; end point symmetry
        0..=5 => {
            h.class("geodesic/general");
            if h.want_sample() {
                h.sample(J::obj().set("what", "direct/inverse geodesic").set("ellipsoid", &name).set("from_lon_lat", J::coords(&[lon1, lat1])));
            }
            let az = rng.range(-PI, PI);
            let s = maxd * rng.f() * if rng.chance(0.2) { 1e-3 } else { 1.0 };
            let d = e.geodesic_fwd(&p1, az, s);
            h.eval(1);
            if d[3] >= 1000.0 {
                h.class("geodesic/direct-not-converged");
                return;
            }
            let p2 = Coor2D::raw(d[0], d[1]);
            let inv = e.geodesic_inv(&p1, &p2);
            h.eval(1);
            if inv[3] >= 1000.0 {
                h.class("geodesic/inverse-not-converged");
                return;
            }
            let ds = (inv[2] - s).abs();
            h.max("geodesic: |s(inv(p1, fwd(p1,az,s))) - s| (m)", ds / sz, || format!("{name} from {lon1} {lat1} az {az} s {s}"));
            let mut daz = (inv[0] - az).rem_euclid(2.0 * PI);
            if daz > PI {
                daz -= 2.0 * PI;
            }
            let lever = (s / ell.a).sin().abs() * ell.a;
            let detail = || {
                J::obj()
                    .set("ellipsoid", &name)
                    .set("from_lon_lat", J::coords(&[lon1, lat1]))
                    .set("azimuth", az)
                    .set("distance", s)
                    .set("direct_result", J::coords(&d.0))
                    .set("inverse_result", J::coords(&inv.0))
            };
            if !(ds <= 1.0e-4 * sz) || !(daz.abs() * lever <= 1.0e-4 * sz) {
                v(h, idx, "direct-and-inverse-inconsistent", detail());
                return;
            }
            // symmetric in the end points
            let rev = e.geodesic_inv(&p2, &p1);
            h.eval(1);
            if rev[3] < 1000.0 {
                let dsym = (rev[2] - inv[2]).abs();
                h.max("geodesic: |s(p1,p2) - s(p2,p1)| (m)", dsym / sz, || format!("{name} from {lon1} {lat1} az {az} s {s}"));
                let mut da = (rev[0] - (inv[1] + PI)).rem_euclid(2.0 * PI);
                if da > PI {
                    da -= 2.0 * PI;
                }
                if !(dsym <= 1.0e-5 * sz) || !(da.abs() * lever <= 1.0e-4 * sz && (da.abs() <= 1e-8 || lever < 1.0e4 * sz)) {
                    v(h, idx, "not-symmetric-in-end-points", detail().set("reverse_result", J::coords(&rev.0)));
                }
            }
        }
        // along a meridian the distance is the meridian arc
        6 | 7 => {
            h.class("geodesic/meridian");
            let lat2 = rng.range(-89.0, 89.0) * D2R;
            if (lat2 - lat1).abs() < 1e-6 {
                return;
            }
            let p2 = Coor2D::raw(lon1, lat2);
            let inv = e.geodesic_inv(&p1, &p2);
            h.eval(1);
            let want = (ell.meridian_arc(lat2) - ell.meridian_arc(lat1)).abs();
            let d = (inv[2] - want).abs();
            h.max("geodesic on a meridian vs quadrature (m, scaled to GRS80 f)", d / sz / fscale, || format!("{name} {lat1}->{lat2}"));
            if !(d <= 1.0e-5 * fscale * sz) {
                v(h, idx, "meridian-geodesic-is-not-the-meridian-arc", J::obj().set("ellipsoid", &name).set("latitudes", J::coords(&[lat1, lat2])).set("library", inv[2]).set("meridian_arc", want));
            }
        }
        // along the equator the distance is a |dlon|
        8 => {
            h.class("geodesic/equator");
            let dl = rng.range(-175.0, 175.0) * D2R * 0.99;
            if dl.abs() < 1e-6 {
                return;
            }
            // beyond ~ (1-f)*180 degrees the geodesic leaves the equator: stay below it
            if dl.abs() > (1.0 - ell.f) * PI * 0.98 {
                return;
            }
            let a = Coor2D::raw(lon1, 0.0);
            let b = Coor2D::raw(lon1 + dl, 0.0);
            let inv = e.geodesic_inv(&a, &b);
            h.eval(1);
            let want = ell.a * dl.abs();
            let d = (inv[2] - want).abs();
            h.max("geodesic on the equator vs a*dlon (m)", if d.is_nan() { f64::MAX } else { d / sz }, || format!("{name} dlon {dl}"));
            if !(d <= 1.0e-5 * fscale * sz) {
                v(h, idx, "equatorial-geodesic-is-not-the-equatorial-arc", J::obj().set("ellipsoid", &name).set("dlon", dl).set("library", inv[2]).set("a_times_dlon", want).set("iterations", inv[3]));
            }
        }
        // on a sphere the geodesic is the great circle
        _ => {
            h.class("geodesic/sphere");
            let r = rng.range(6.0e6, 6.5e6);
            let sph = Ellipsoid::new(r, 0.0);
            let (lon2, lat2) = (lon1 + rng.range(-170.0, 170.0) * D2R, rng.range(-89.0, 89.0) * D2R);
            let inv = sph.geodesic_inv(&p1, &Coor2D::raw(lon2, lat2));
            h.eval(1);
            let want = geo::great_circle(r, lon1, lat1, lon2, lat2);
            let rel = (inv[2] - want).abs() / want.max(1.0);
            h.max("sphere: geodesic vs great circle (relative)", rel, || format!("r {r} {lon1} {lat1} -> {lon2} {lat2}"));
            if !(rel <= 1.0e-9) {
                v(h, idx, "spherical-geodesic-is-not-the-great-circle", J::obj().set("radius", r).set("p1", J::coords(&[lon1, lat1])).set("p2", J::coords(&[lon2, lat2])).set("library", inv[2]).set("great_circle", want));
            }
        }
    }
}

type Fwd = Box<dyn Fn(f64) -> f64>;

fn latitudes(h: &H, idx: u64, rng: &mut Rng) {
    let (name, ell, e) = pick(rng, true);
    h.distinct(mix(hash_str(&name), idx));
    let kinds = ["geocentric", "reduced", "conformal", "authalic", "rectifying", "isometric"];
    let k = kinds[(idx / 5) as usize % kinds.len()];
    h.class(&format!("latitude/{k}"));
    let cc = e.coefficients_for_conformal_latitude_computations();
    let ca = e.coefficients_for_authalic_latitude_computations();
    let cr = e.coefficients_for_rectifying_latitude_computations();
    let qn = e.normalized_meridian_arc_unit();
    let (fwd, inv, reference): (Fwd, Fwd, Fwd) = match k {
        "geocentric" => (
            Box::new(move |x| e.latitude_geographic_to_geocentric(x)),
            Box::new(move |x| e.latitude_geocentric_to_geographic(x)),
            Box::new(move |x| ell.geocentric_lat(x)),
        ),
        "reduced" => (
            Box::new(move |x| e.latitude_geographic_to_reduced(x)),
            Box::new(move |x| e.latitude_reduced_to_geographic(x)),
            Box::new(move |x| ell.reduced_lat(x)),
        ),
        "conformal" => (
            Box::new(move |x| e.latitude_geographic_to_conformal(x, &cc)),
            Box::new(move |x| e.latitude_conformal_to_geographic(x, &cc)),
            Box::new(move |x| ell.conformal_lat(x)),
        ),
        "authalic" => (
            Box::new(move |x| e.latitude_geographic_to_authalic(x, &ca)),
            Box::new(move |x| e.latitude_authalic_to_geographic(x, &ca)),
            Box::new(move |x| ell.authalic_lat(x)),
        ),
        "rectifying" => (
            Box::new(move |x| e.latitude_geographic_to_rectifying(x, &cr)),
            Box::new(move |x| e.latitude_rectifying_to_geographic(x, &cr)),
            Box::new(move |x| ell.rectifying_lat(x)),
        ),
        _ => (
            Box::new(move |x| e.latitude_geographic_to_isometric(x)),
            Box::new(move |x| e.latitude_isometric_to_geographic(x)),
            Box::new(move |x| ell.isometric_lat(x)),
        ),
    };
    let detail = |lat: f64, got: f64| J::obj().set("ellipsoid", &name).set("kind", k).set("latitude", lat).set("library", got);
    // fixes zero and the poles
    h.eval(3);
    if fwd(0.0) != 0.0 {
        v(h, idx, &format!("latitude/{k}/zero-not-fixed"), detail(0.0, fwd(0.0)));
    }
    for z in [0.0, -0.0] {
        if inv(z) != 0.0 {
            v(h, idx, &format!("latitude/{k}/zero-not-fixed-by-the-inverse"), detail(z, inv(z)));
            return;
        }
    }
    let at_pole = fwd(FRAC_PI_2);
    if k == "isometric" {
        if !(at_pole > 30.0) {
            v(h, idx, "latitude/isometric/pole-not-at-infinity", detail(FRAC_PI_2, at_pole));
        }
    } else if k == "rectifying" {
        // KNOWN FINDING: the library returns Qn*mu; the pole maps to Qn*pi/2 instead of pi/2
        if (at_pole - FRAC_PI_2).abs() > 1.0e-12 {
            if ((at_pole / qn) - FRAC_PI_2).abs() <= 1.0e-12 {
                v(h, idx, "latitude/rectifying/scaled-by-normalized-meridian-arc-unit", detail(FRAC_PI_2, at_pole).set("Qn", qn).set("what", "geographic_to_rectifying returns Qn*mu: the pole does not map to the pole"));
            } else {
                v(h, idx, "latitude/rectifying/pole-not-fixed", detail(FRAC_PI_2, at_pole).set("Qn", qn));
            }
        }
    } else if !((at_pole - FRAC_PI_2).abs() <= 1.0e-12) {
        v(h, idx, &format!("latitude/{k}/pole-not-fixed"), detail(FRAC_PI_2, at_pole));
    }
    // odd, strictly increasing on a lattice, round trip, closed form
    let n = 60;
    let mut prev = f64::NEG_INFINITY;
    let offset = rng.f();
    for i in 0..=n {
        let lat = (-89.99 + (179.98 * (i as f64 + offset * 0.999) / (n as f64 + 1.0))) * D2R;
        let y = fwd(lat);
        h.eval(3);
        if !(y > prev) {
            v(h, idx, &format!("latitude/{k}/not-increasing"), detail(lat, y).set("previous_value", prev));
            return;
        }
        prev = y;
        let ym = fwd(-lat);
        if !((y + ym).abs() <= 4.0 * geo::ulp(y)) {
            v(h, idx, &format!("latitude/{k}/not-odd"), detail(lat, y).set("at_minus_latitude", ym));
            return;
        }
        let back = inv(y);
        h.max(&format!("{k}: round trip (rad)"), (back - lat).abs(), || format!("{name} at {lat}"));
        if !((back - lat).abs() <= 1.0e-12) {
            v(h, idx, &format!("latitude/{k}/round-trip"), detail(lat, y).set("back", back));
            return;
        }
        if lat.abs() <= 89.0 * D2R {
            let want = reference(lat);
            let got = if k == "rectifying" { y / qn } else { y };
            let tol = if k == "isometric" { 1.0e-11 * want.abs().max(1.0) } else { 1.0e-11 };
            h.max(&format!("{k}: vs closed form / quadrature (rad)"), (got - want).abs(), || format!("{name} at {lat}"));
            if !((got - want).abs() <= tol) {
                v(h, idx, &format!("latitude/{k}/differs-from-definition"), detail(lat, y).set("definition", want));
                return;
            }
        }
    }
    // the `latitude` operator on the same ellipsoid, against the same definitions
    if k != "isometric" {
        let mut ctx = Minimal::new();
        let def = format!("latitude {k} ellps={name}");
        let Ok(op) = ctx.op(&def) else {
            v(h, idx, &format!("latitude-operator/{k}/instantiation"), J::obj().set("definition", &def));
            return;
        };
        h.class(&format!("latitude-operator/{k}"));
        for _ in 0..12 {
            let lat = rng.range(-89.0, 89.0) * D2R;
            let (r, c) = apply1(&ctx, op, D::F, [0.25, lat, 3.0, 4.0]);
            let (b, _) = apply1(&ctx, op, D::I, r);
            h.eval(2);
            let want = reference(lat);
            let got = if k == "rectifying" { r[1] / qn } else { r[1] };
            if c != 1 || !((got - want).abs() <= 1.0e-11) || !((b[1] - lat).abs() <= 1.0e-12) || r[0] != 0.25 || r[2] != 3.0 {
                v(
                    h,
                    idx,
                    &format!("latitude-operator/{k}/differs-from-definition"),
                    J::obj().set("definition", &def).set("latitude", lat).set("operator", r[1]).set("reference", want).set("back", b[1]).set("count", c),
                );
                return;
            }
        }
    }
}

fn meridians(h: &H, idx: u64, rng: &mut Rng) {
    let (name, ell, e) = pick(rng, true);
    let sz = catalog::size(&ell);
    h.class("meridian-arc");
    h.distinct(mix(hash_str(&name), idx));
    let nscale = (ell.n() / GRS80.n()).powi(4).max(1.0);
    // quadrant
    let q = e.meridian_quadrant();
    let want = ell.meridian_arc(FRAC_PI_2);
    h.eval(1);
    if !((q - want).abs() <= 1.0e-6 * sz) {
        v(h, idx, "meridian-quadrant", J::obj().set("ellipsoid", &name).set("library", q).set("quadrature", want));
    }
    for _ in 0..30 {
        let lat = catalog::edge_biased(rng) * FRAC_PI_2;
        let m = e.meridian_latitude_to_distance(lat);
        let want = ell.meridian_arc(lat);
        h.eval(2);
        let d = (m - want).abs();
        h.max("Bowring meridian arc vs quadrature (m, scaled to GRS80 n)", d / sz / nscale, || format!("{name} at {lat}"));
        if !(d <= 1.5e-5 * nscale * sz) {
            v(h, idx, "meridian-arc-differs-from-quadrature", J::obj().set("ellipsoid", &name).set("latitude", lat).set("library", m).set("quadrature", want));
            return;
        }
        let back = e.meridian_distance_to_latitude(m);
        h.max("meridian distance <-> latitude round trip (rad, scaled)", (back - lat).abs() / nscale, || format!("{name} at {lat}"));
        if !((back - lat).abs() <= 1.5e-11 * nscale) {
            v(h, idx, "meridian-distance-and-latitude-not-inverse", J::obj().set("ellipsoid", &name).set("latitude", lat).set("distance", m).set("back", back));
            return;
        }
        // odd
        let mm = e.meridian_latitude_to_distance(-lat);
        if !((m + mm).abs() <= 1.0e-9 * sz) {
            v(h, idx, "meridian-arc-not-odd", J::obj().set("ellipsoid", &name).set("latitude", lat).set("m", m).set("m_at_minus", mm));
            return;
        }
    }
}
