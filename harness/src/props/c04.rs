//! C04 - a macro invocation means its expansion, and macro resolution always terminates.
//!
//! The generator owns a parametrised macro AST; a reference expander substitutes the
//! invocation arguments following the documented binding rules and hands a literal AST to the
//! C03 reference interpreter. Cyclic and deep resource graphs run under the crash/hang monitor.

use super::c03::{Body, Model, Step};
use crate::harness::{hash_str, H};
use crate::json::J;
use crate::rng::Rng;
use crate::util::*;
use geodesy::authoring::*;
use std::collections::BTreeMap;

#[derive(Clone, Debug)]
enum Bind {
    Lit(String),
    Ref(String),
    RefDef(String, String),
    Def(String),
}

#[derive(Clone, Debug)]
enum Kind {
    Helmert(Vec<(String, Bind)>),
    Addone,
    Call(usize, Vec<(String, Bind)>),
}

#[derive(Clone, Debug)]
struct PStep {
    kind: Kind,
    inv: bool,
    omit_fwd: bool,
    omit_inv: bool,
}

#[derive(Clone, Debug)]
struct MacroDef {
    name: String,
    steps: Vec<PStep>,
    single: bool,
}

/// Names chosen to realise every lexical order between inner names, outer names, operator
/// keys and the internal `_name` key ('B' < '_' < 'a')
const NAMES: [&str; 14] = ["a", "b", "m", "p", "q", "x", "y", "z", "s", "_u", "zz", "B", "xa", "k"];
const HKEYS: [&str; 4] = ["x", "y", "z", "s"];
const POISON: &str = "\u{1}unresolved: ";

fn value(rng: &mut Rng, key: &str) -> String {
    if rng.chance(0.06) {
        // (what a flag wants to hear; a number elsewhere rejects it on both routes)
        return "true".into();
    }
    if key == "s" {
        format!("{}", rng.int(-9, 9) * 100000)
    } else {
        format!("{}", rng.int(-60, 60))
    }
}

fn bind(rng: &mut Rng, key: &str, allow_def: bool) -> Bind {
    match rng.below(if allow_def { 7 } else { 5 }) {
        0 | 1 => Bind::Lit(value(rng, key)),
        2 | 3 => Bind::Ref(rng.pick(&NAMES).to_string()),
        4 => Bind::RefDef(rng.pick(&NAMES).to_string(), value(rng, key)),
        _ => Bind::Def(value(rng, key)),
    }
}

fn render_bind(k: &str, b: &Bind) -> String {
    match b {
        Bind::Lit(v) => format!("{k}={v}"),
        Bind::Ref(n) => format!("{k}=${n}"),
        Bind::RefDef(n, d) => format!("{k}=${n}({d})"),
        Bind::Def(d) => format!("{k}=({d})"),
    }
}

fn gen_step(rng: &mut Rng, macros: &[MacroDef], in_pipeline: bool) -> PStep {
    let kind = if !macros.is_empty() && rng.chance(0.4) {
        let target = rng.below(macros.len());
        let n = rng.below(4);
        let mut args = Vec::new();
        for _ in 0..n {
            let k = rng.pick(&NAMES).to_string();
            if args.iter().any(|(kk, _): &(String, Bind)| *kk == k) {
                continue;
            }
            args.push((k.clone(), bind(rng, &k, true)));
        }
        Kind::Call(target, args)
    } else if rng.chance(0.15) {
        Kind::Addone
    } else {
        let mut ps = Vec::new();
        for k in HKEYS {
            if rng.chance(0.55) {
                ps.push((k.to_string(), bind(rng, k, true)));
            }
        }
        if rng.chance(0.25) {
            // a flag bound like any other parameter (with a rotation, so that it matters)
            ps.push(("rz".to_string(), Bind::Lit("7200".into())));
            ps.push(("convention".to_string(), Bind::Lit("position_vector".into())));
            let b = match rng.below(5) {
                0 => Bind::Lit("true".into()),
                1 | 2 => Bind::Ref(rng.pick(&NAMES).to_string()),
                3 => Bind::RefDef(rng.pick(&NAMES).to_string(), "true".into()),
                _ => Bind::Def("true".into()),
            };
            ps.push(("exact".to_string(), b));
        }
        Kind::Helmert(ps)
    };
    PStep {
        kind,
        inv: rng.chance(0.3),
        omit_fwd: in_pipeline && rng.chance(0.1),
        omit_inv: in_pipeline && rng.chance(0.1),
    }
}

fn render_pstep(s: &PStep, macros: &[MacroDef], rng: &mut Rng) -> String {
    let mut words: Vec<String> = match &s.kind {
        Kind::Addone => vec!["addone".into()],
        Kind::Helmert(ps) => {
            let mut w = vec!["helmert".to_string()];
            for (k, b) in ps {
                w.push(render_bind(k, b));
            }
            w
        }
        Kind::Call(t, args) => {
            let mut w = vec![macros[*t].name.clone()];
            for (k, b) in args {
                w.push(render_bind(k, b));
            }
            w
        }
    };
    let mut flags: Vec<String> = Vec::new();
    if s.inv {
        flags.push(if rng.chance(0.2) { "inv=true".into() } else { "inv".into() });
    }
    if s.omit_fwd {
        flags.push("omit_fwd".into());
    }
    if s.omit_inv {
        flags.push("omit_inv".into());
    }
    let mut name_at = 0;
    for f in flags {
        let bare = !f.contains('=');
        let at = match rng.below(3) {
            0 if bare => {
                name_at += 1;
                0
            }
            1 => name_at + 1 + rng.below(words.len() - name_at),
            _ => words.len(),
        };
        words.insert(at.min(words.len()), f);
    }
    words.join(" ")
}

fn render_body(m: &MacroDef, macros: &[MacroDef], rng: &mut Rng) -> String {
    let parts: Vec<String> = m.steps.iter().map(|s| render_pstep(s, macros, rng)).collect();
    parts.join(" | ")
}

/// Substitute the caller-visible arguments `env` into a step; Err = the documented error
/// (a `$name` without default whose name the caller did not supply)
fn expand(s: &PStep, macros: &[MacroDef], env: &BTreeMap<String, String>, depth: usize) -> Result<Step, String> {
    let missing = |k: &str, n: &str| format!("'{k}=${n}': the caller gave no '{n}'");
    let resolve = |k: &str, b: &Bind| -> Result<String, String> {
        // an argument the caller could not resolve counts as not given where a default
        // exists, and is an error where the value is demanded
        let usable = |n: &str| env.get(n).filter(|v| !v.starts_with(POISON)).cloned();
        let v = match b {
            Bind::Lit(v) => v.clone(),
            Bind::Ref(n) => match env.get(n) {
                None => return Err(missing(k, n)),
                Some(v) => match v.strip_prefix(POISON) {
                    Some(why) => return Err(why.to_string()),
                    None => v.clone(),
                },
            },
            Bind::RefDef(n, d) => usable(n).unwrap_or(d.clone()),
            Bind::Def(d) => usable(k).unwrap_or(d.clone()),
        };
        Ok(v)
    };
    let body = match &s.kind {
        Kind::Addone => Body::Elem("addone".into()),
        Kind::Helmert(ps) => {
            // caller arguments are visible to the step; step-local values win
            let mut eff: BTreeMap<String, String> = env.clone();
            for (k, b) in ps {
                eff.insert(k.clone(), resolve(k, b)?);
            }
            let mut def = String::from("helmert");
            for k in HKEYS.iter().copied().chain(["rz", "convention", "exact"]) {
                if let Some(v) = eff.get(k) {
                    if let Some(why) = v.strip_prefix(POISON) {
                        return Err(why.to_string());
                    }
                    def += &format!(" {k}={v}");
                }
            }
            Body::Elem(def)
        }
        Kind::Call(t, args) => {
            if depth > 200 {
                return Err("expansion too deep".into());
            }
            let mut inner = env.clone();
            for (k, b) in args {
                // an argument that cannot be resolved is an error when (and if) it is used
                let v = match resolve(k, b) {
                    Ok(v) => v,
                    Err(why) => format!("{POISON}{why}"),
                };
                inner.insert(k.clone(), v);
            }
            let m = &macros[*t];
            let mut steps = Vec::new();
            for st in &m.steps {
                steps.push(expand(st, macros, &inner, depth + 1)?);
            }
            Body::Macro {
                name: m.name.clone(),
                steps,
                single: m.single,
            }
        }
    };
    Ok(Step {
        body,
        inv: s.inv,
        omit_fwd: s.omit_fwd,
        omit_inv: s.omit_inv,
    })
}

/// Every elementary step of a literal expansion instantiates on its own
fn instantiable(ctx: &mut Minimal, s: &Step) -> bool {
    match &s.body {
        Body::Elem(def) => ctx.op(def).is_ok(),
        Body::Macro { steps, .. } => steps.iter().all(|x| instantiable(ctx, x)),
    }
}

fn levels(s: &Step) -> usize {
    match &s.body {
        Body::Elem(_) => 0,
        Body::Macro { steps, single, .. } => {
            let inner = steps.iter().map(levels).max().unwrap_or(0);
            2 + if *single { 0 } else { 1 } + inner
        }
    }
}

pub fn run(h: &H) {
    let n = h.budget(24_000, 1_600_000);
    for idx in h.cases(n) {
        let mut rng = h.rng(idx);
        match idx % 8 {
            7 => cycles(h, idx, &mut rng),
            6 => chain(h, idx, &mut rng),
            _ => equivalence(h, idx, &mut rng),
        }
    }
}

fn equivalence(h: &H, idx: u64, rng: &mut Rng) {
    // a DAG of macros: macro i may call macros 0..i
    let nm = 1 + rng.below(5);
    let mut macros: Vec<MacroDef> = Vec::new();
    for i in 0..nm {
        let single = rng.chance(0.4);
        let ns = if single { 1 } else { 2 + rng.below(3) };
        let steps: Vec<PStep> = (0..ns).map(|_| gen_step(rng, &macros, !single)).collect();
        macros.push(MacroDef {
            name: format!("u:m{i}"),
            steps,
            single,
        });
    }
    let resources: Vec<(String, String)> = macros
        .iter()
        .map(|m| (m.name.clone(), render_body(m, &macros, rng)))
        .collect();
    // the invocation
    let top = nm - 1;
    let mut args = Vec::new();
    for _ in 0..rng.below(5) {
        let k = rng.pick(&NAMES).to_string();
        if args.iter().any(|(kk, _): &(String, Bind)| *kk == k) {
            continue;
        }
        // mostly literal values; now and then a reference, which at the top level has no caller
        // to resolve it (the names set by the same invocation are not its callers)
        let b = if rng.chance(0.85) { Bind::Lit(value(rng, &k)) } else { bind(rng, &k, true) };
        args.push((k, b));
    }
    let in_pipeline = rng.chance(0.5);
    let call = PStep {
        kind: Kind::Call(top, args),
        inv: rng.chance(0.4),
        omit_fwd: in_pipeline && rng.chance(0.1),
        omit_inv: in_pipeline && rng.chance(0.1),
    };
    let call_text = render_pstep(&call, &macros, rng);
    let text = if in_pipeline {
        format!("addone | {call_text} | helmert x=7 s=300000")
    } else {
        call_text.clone()
    };
    // the same text in a free layout: blanks around the equals signs, runs of blanks, line breaks
    let text = if rng.chance(0.3) {
        let mut t = String::new();
        for ch in text.chars() {
            match ch {
                '=' if rng.chance(0.4) => t += *rng.pick(&[" = ", " =", "= ", "  =  "]),
                ' ' if rng.chance(0.3) => t += *rng.pick(&["  ", "\n", " \t ", "\n    "]),
                _ => t.push(ch),
            }
        }
        t
    } else {
        text
    };
    let desc = format!("{text}   {resources:?}");
    h.distinct(hash_str(&desc));
    h.guard(idx, &desc, || {
        let mut ctx = Minimal::new();
        for (k, v) in &resources {
            // (now and then registered twice: the body in force is the one registered last)
            if hash_str(k) % 5 == idx % 5 {
                ctx.register_resource(k, "noop | addone | addone");
            }
            ctx.register_resource(k, v);
        }
        let expanded = expand(&call, &macros, &BTreeMap::new(), 0);
        let lib = ctx.op(&text);
        let detail = || {
            J::obj()
                .set("invocation", &text)
                .set("resources", J::Arr(resources.iter().map(|(k, v)| J::s(format!("{k} = {v}"))).collect()))
        };
        // binding-form coverage
        for m in &macros {
            for s in &m.steps {
                let bs: Vec<&Bind> = match &s.kind {
                    Kind::Helmert(p) | Kind::Call(_, p) => p.iter().map(|x| &x.1).collect(),
                    _ => vec![],
                };
                for b in bs {
                    h.class(match b {
                        Bind::Lit(_) => "bind/literal",
                        Bind::Ref(_) => "bind/$name",
                        Bind::RefDef(_, _) => "bind/$name(default)",
                        Bind::Def(_) => "bind/(default)",
                    });
                }
                if matches!(s.kind, Kind::Call(_, _)) {
                    h.class("nested-invocation");
                }
            }
        }
        match (&expanded, &lib) {
            (Err(why), Ok(_)) => {
                h.violation(
                    idx,
                    "C04/missing-argument-accepted",
                    detail().set("what", "a $name without default and without caller value must be an error").set("model", why),
                );
            }
            (Err(_), Err(_)) => {
                h.class("outcome/both-error");
                h.eval(1);
            }
            (Ok(st), Err(e)) => {
                if matches!(e, Error::Recursion(_, _)) && 2 * levels(st) + 8 > 90 {
                    h.class("outcome/recursion-limit");
                    return;
                }
                // a value of the wrong type ('true' for a real, a number for a flag) makes the
                // literal expansion itself invalid: both routes refuse
                if !instantiable(&mut ctx, st) {
                    h.class("outcome/both-error");
                    h.eval(1);
                    return;
                }
                h.violation(
                    idx,
                    &format!("C04/expansion-valid-but-rejected/{}", err_kind(e)),
                    detail()
                        .set("what", "the literal expansion is a valid operation but the invocation is refused")
                        .set("error", format!("{e}"))
                        .set("expansion", format!("{st:?}")),
                );
            }
            (Ok(st), Ok(op)) => {
                h.class("outcome/both-ok");
                let op = *op;
                let set: Vec<Coor4D> = (0..3)
                    .map(|i| Coor4D([100.0 + i as f64 * 7.0, -20.5 + i as f64, 3.25 * (i + 1) as f64, 2000.0 + i as f64]))
                    .collect();
                for d in [D::F, D::I] {
                    let mut got = set.clone();
                    let gn = apply_set(&ctx, op, d, &mut got);
                    let mut want = set.clone();
                    let mut m = Model {
                        ctx: &mut ctx,
                        handles: Default::default(),
                        events: Vec::new(),
                        failed: None,
                    };
                    let wn = if in_pipeline {
                        let pre = Step { body: Body::Elem("addone".into()), inv: false, omit_fwd: false, omit_inv: false };
                        let post = Step { body: Body::Elem("helmert x=7 s=300000".into()), inv: false, omit_fwd: false, omit_inv: false };
                        m.pipeline(&[pre, st.clone(), post], d, &mut want)
                    } else {
                        m.step(st, d, &mut want)
                    };
                    if let Some(f) = m.failed {
                        h.violation(
                            idx,
                            "C04/expansion-step-rejected",
                            detail().set("what", "the invocation instantiates, a literal step of its expansion does not").set("model", f),
                        );
                        return;
                    }
                    h.eval(set.len() as u64);
                    let same = (0..set.len()).all(|i| same_bits(&got[i].0, &want[i].0));
                    if !same || gn != wn {
                        h.violation(
                            idx,
                            &format!("C04/invocation-differs-from-expansion/{}", d.name()),
                            detail()
                                .set("direction", d.name())
                                .set("expansion", format!("{st:?}"))
                                .set("input", J::Arr(set.iter().map(|c| J::coords(&c.0)).collect()))
                                .set("library", J::Arr(got.iter().map(|c| J::coords(&c.0)).collect()))
                                .set("model", J::Arr(want.iter().map(|c| J::coords(&c.0)).collect()))
                                .set("library_count", gn)
                                .set("model_count", wn),
                        );
                        return;
                    }
                }
                if h.want_sample() && idx % 53 == 0 {
                    h.sample(detail());
                }
            }
        }
    });
}

/// Resource graphs with cycles: instantiation must return (an error), in bounded time
fn cycles(h: &H, idx: u64, rng: &mut Rng) {
    let len = 1 + rng.below(6);
    let mut res: Vec<(String, String)> = Vec::new();
    for i in 0..len {
        let next = format!("c:n{}", (i + 1) % len);
        let body = match rng.below(5) {
            0 => next,
            1 => format!("{next} inv"),
            2 => format!("addone | {next}"),
            3 => format!("{next} x=$x(1) | addone | {next} inv"),
            _ => format!("helmert x=1 | {next} q=3 | addone"),
        };
        res.push((format!("c:n{i}"), body));
    }
    // sometimes a tail leading into the cycle
    let entry = if rng.chance(0.4) {
        res.push(("c:entry".into(), "addone | c:n0 | addone".into()));
        "c:entry"
    } else {
        "c:n0"
    };
    let text = match rng.below(3) {
        0 => entry.to_string(),
        1 => format!("{entry} inv"),
        _ => format!("addone | {entry} a=1"),
    };
    let desc = format!("cycle of {len}: {text}   {res:?}");
    h.distinct(hash_str(&desc));
    h.class(&format!("cycle/length-{len}"));
    h.guard(idx, &desc, || {
        for plain in [false, true] {
            let r = if plain {
                let mut ctx = Plain::new();
                for (k, v) in &res {
                    ctx.register_resource(k, v);
                }
                ctx.op(&text).map(|_| ())
            } else {
                let mut ctx = Minimal::new();
                for (k, v) in &res {
                    ctx.register_resource(k, v);
                }
                ctx.op(&text).map(|_| ())
            };
            h.eval(1);
            if r.is_ok() {
                h.violation(
                    idx,
                    "C04/cyclic-definition-instantiated",
                    J::obj().set("invocation", &text).set("resources", format!("{res:?}")),
                );
            }
        }
    });
}

/// Acyclic chains of depth 0..50: a value or the documented resource-limit error
fn chain(h: &H, idx: u64, rng: &mut Rng) {
    let depth = rng.below(51);
    let pipes = rng.chance(0.5);
    let mut res: Vec<(String, String)> = Vec::new();
    for i in 0..depth {
        let next = if i + 1 == depth { "helmert x=$v(2)".to_string() } else { format!("d:n{} v=$v(5)", i + 1) };
        let body = if pipes && i % 3 == 0 { format!("noop | {next}") } else { next };
        res.push((format!("d:n{i}"), body));
    }
    let text = if depth == 0 { "helmert x=2".to_string() } else { "d:n0 v=9".to_string() };
    let desc = format!("chain of depth {depth} (pipelines: {pipes})");
    h.distinct(hash_str(&format!("{desc}{idx}")));
    h.class(&format!("chain/depth-{}", depth / 10 * 10));
    h.guard(idx, &desc, || {
        let mut ctx = Minimal::new();
        for (k, v) in &res {
            ctx.register_resource(k, v);
        }
        h.eval(1);
        match ctx.op(&text) {
            Ok(op) => {
                let want = if depth == 0 { 2.0 } else { 9.0 };
                let (r, _) = apply1(&ctx, op, D::F, [0.0, 0.0, 0.0, 0.0]);
                if r[0] != want {
                    h.violation(
                        idx,
                        "C04/argument-lost-in-chain",
                        J::obj().set("depth", depth).set("resources", format!("{res:?}")).set("expected_x", want).set("got", J::coords(&r)),
                    );
                }
            }
            Err(Error::Recursion(_, _)) => {
                // the nesting counter (limit 100) advances 4 per macro level and 1 per
                // pipeline level: the limit is a documented resource bound, but it must not
                // strike chains much shorter than that
                let used = 4 * depth + if pipes { depth / 3 + 1 } else { 0 };
                if used + 8 < 100 {
                    h.violation(
                        idx,
                        "C04/recursion-limit-hit-early",
                        J::obj().set("depth", depth).set("pipelines", pipes).set("resources", format!("{res:?}")),
                    );
                } else {
                    h.class("chain/recursion-limit");
                }
            }
            Err(e) => {
                h.violation(
                    idx,
                    &format!("C04/chain-rejected/{}", err_kind(&e)),
                    J::obj().set("depth", depth).set("error", format!("{e}")).set("resources", format!("{res:?}")),
                );
            }
        }
    });
}
