//! One workload + monitor per property

use crate::harness::H;

macro_rules! props {
    ($($id:literal => $m:ident),* $(,)?) => {
        $(pub mod $m;)*
        pub fn known(p: &str) -> bool {
            matches!(p, $($id)|*)
        }
        pub fn run(h: &H) {
            match h.cfg.prop.as_str() {
                $($id => $m::run(h),)*
                _ => unreachable!(),
            }
        }
    };
}

props! {
    "C01" => c01,
    "C02" => c02,
    "C03" => c03,
    "C04" => c04,
    "C05" => c05,
    "C06" => c06,
    "C07" => c07,
    "C08" => c08,
    "C09" => c09,
    "C10" => c10,
    "C11" => c11,
    "C12" => c12,
    "C13" => c13,
    "C14" => c14,
    "C15" => c15,
    "C16" => c16,
    "C17" => c17,
    "C18" => c18,
    "C19" => c19,
    "C20" => c20,
}

pub use c16::ref_real as c16_ref_real;
