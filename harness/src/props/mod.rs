//! One workload + monitor per property

use crate::harness::H;

pub mod c01;
pub mod c09;

pub fn known(p: &str) -> bool {
    matches!(p, "C01" | "C09")
}

pub fn run(h: &H) {
    match h.cfg.prop.as_str() {
        "C01" => c01::run(h),
        "C09" => c09::run(h),
        _ => unreachable!(),
    }
}
