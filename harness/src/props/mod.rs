//! One workload + monitor per property

use crate::harness::H;

pub mod c01;
pub mod c02;
pub mod c03;
pub mod c04;
pub mod c07;
pub mod c09;

pub fn known(p: &str) -> bool {
    matches!(p, "C01" | "C02" | "C03" | "C04" | "C07" | "C09")
}

pub fn run(h: &H) {
    match h.cfg.prop.as_str() {
        "C01" => c01::run(h),
        "C02" => c02::run(h),
        "C03" => c03::run(h),
        "C04" => c04::run(h),
        "C07" => c07::run(h),
        "C09" => c09::run(h),
        _ => unreachable!(),
    }
}
