//! C02 - each tuple is transformed independently of neighbours, order, chunking, container and
//! of the history of earlier applies on the same handle.  Two routes inside one build, compared
//! bit for bit.

use crate::catalog::{self, HelmertSpec};
use crate::harness::{hash_f64s, hash_str, H};
use crate::json::J;
use crate::rng::{mix, Rng};
use crate::util::*;
use geodesy::authoring::*;

/// Definitions that are not single catalogue instances: (text, elementary?, input domain).
/// Domains: "geo" = radians over (and a little beyond) the coverage of the shipped test grids,
/// "cart" = the same places as cartesian coordinates, "deg" = the same in degrees, latitude first,
/// "any" = anything
const EXTRA: [(&str, bool, &str); 21] = [
    ("gridshift grids=test.datum", true, "geo"),
    ("gridshift grids=test.geoid", true, "geo"),
    ("gridshift grids=5458_with_subgrid.gsb", true, "geo"),
    ("gridshift grids=test_subset.datum,test.datum,@null", true, "geo"),
    ("deformation grids=test.deformation t_epoch=2000", true, "cart"),
    ("deformation grids=test.deformation dt=10 inv", true, "cart"),
    ("deformation grids=another_test.deformation,test.deformation t_epoch=2010.5 raw", true, "cart"),
    ("deflection grids=test.geoid", true, "deg"),
    ("curvature mean", true, "any"),
    ("curvature azimuthal ellps=intl", true, "any"),
    ("gravity grs80", true, "any"),
    ("geodesic", true, "any"),
    ("geodesic inv", true, "any"),
    ("stack push=1,2 | addone | stack swap | stack pop=1,2", false, "any"),
    ("push v_1 v_3 | helmert x=1 s=10 | pop v_3 v_1", false, "any"),
    ("geo:in | utm zone=32 | stack push=2 | addone | stack pop=1 | neu:out", false, "deg"),
    ("stack push=1,2,3 | stack roll=3,1 | stack flip=2 | stack pop=3,2,1 | cart | helmert x=10 rx=1 convention=position_vector t_epoch=2000 dx=0.1 | cart inv", false, "geo"),
    ("cart | deformation grids=test.deformation t_epoch=2000 | cart inv", false, "geo"),
    ("stack push=3 | gridshift grids=test.datum | stack pop=3", false, "geo"),
    ("stack push=1 | stack pop=1,2", false, "any"),
    ("addone | stack push=1,2 | addone", false, "any"),
];

fn gen_set(rng: &mut Rng, inst: Option<&catalog::Inst>, domain: &str, len: usize, epochs: &[f64]) -> Vec<[f64; 4]> {
    let mut v: Vec<[f64; 4]> = Vec::with_capacity(len);
    for i in 0..len {
        let mut p = match inst {
            Some(inst) => inst.sample(rng),
            None if domain == "any" => [
                rng.range(-3.0, 3.0),
                rng.range(-1.5, 1.5),
                rng.range(-100.0, 1000.0),
                2000.0,
            ],
            None => {
                // mostly inside the coverage of the test grids (54-58 N, 8-16 E), some in the
                // margin, some outside
                let (lat, lon) = (rng.range(53.3, 58.7), rng.range(7.3, 16.7));
                let hgt = rng.range(0.0, 500.0);
                match domain {
                    "deg" => [lat, lon, hgt, 2000.0],
                    "cart" => {
                        let c = Ellipsoid::default().cartesian(&Coor4D([lon.to_radians(), lat.to_radians(), hgt, 0.0]));
                        [c[0], c[1], c[2], 2000.0]
                    }
                    _ => [lon.to_radians(), lat.to_radians(), hgt, 2000.0],
                }
            }
        };
        if !epochs.is_empty() {
            p[3] = *rng.pick(epochs);
        }
        match rng.below(25) {
            0 => p[rng.below(4)] = f64::NAN,
            1 => p = [f64::NAN; 4],
            2 => {
                // far outside any domain
                p[0] = rng.logmag(10.0, 1e9);
                p[1] = rng.logmag(10.0, 1e9);
            }
            3 if i > 0 => p = v[rng.below(i)],
            5 | 6 if i > 0 => {
                // the predecessor again, but for one element (same place at another height or
                // epoch, same height elsewhere...): whatever an operator remembers of the last
                // tuple must not leak into this one
                let fresh = p;
                p = v[i - 1];
                let k = rng.below(4);
                p[k] = fresh[k];
            }
            4 => p[rng.below(4)] = f64::INFINITY,
            _ => {}
        }
        v.push(p);
    }
    v
}

fn to_c4(v: &[[f64; 4]]) -> Vec<Coor4D> {
    v.iter().map(|x| Coor4D(*x)).collect()
}

pub fn run(h: &H) {
    let n = h.budget(4_000, 400_000);
    for idx in h.cases(n) {
        let mut rng = h.rng(idx);
        if idx % 16 == 15 {
            h.guard(idx, "sets over lists of overlapping harness-built grids", || grid_sets(h, idx, &mut rng));
            continue;
        }
        // choose the operator
        let kind = idx % 4;
        let mut domain = "any";
        let (def, inst, elementary, epochs): (String, Option<catalog::Inst>, bool, Vec<f64>) = match kind {
            0 | 1 => {
                let name = crate::props::c01::NAMES[rng.below(crate::props::c01::NAMES.len())];
                let inst = catalog::instance(name, &mut rng).unwrap();
                (inst.def.clone(), Some(inst), true, vec![])
            }
            2 => {
                // time dependent helmert with mixed epochs in adversarial orders
                let aspect = *rng.pick(&["p14_approx", "p14_exact", "p14_approx_t_obs"]);
                let mut spec = HelmertSpec::random(&mut rng, aspect);
                if rng.chance(0.3) {
                    spec.dr = [0.0; 3];
                    spec.r = [0.0; 3];
                }
                let e = vec![
                    rng.short_decimal(1990.0, 2030.0, 1),
                    rng.short_decimal(1990.0, 2030.0, 1),
                    spec.t_epoch,
                    f64::NAN,
                ];
                let inst = catalog::instance("helmert", &mut rng);
                (spec.def(), inst, true, e)
            }
            _ => {
                let (d, el, dom) = *rng.pick(&EXTRA);
                let e = if d.contains("t_epoch") {
                    vec![2000.0, 2010.5, 1995.25, 2031.0, f64::NAN]
                } else {
                    vec![]
                };
                domain = dom;
                (d.to_string(), None, el, e)
            }
        };
        h.guard(idx, &def, || one(h, idx, &def, inst.as_ref(), domain, elementary, &epochs, &mut rng));
    }
}

/// gridshift / deformation over two or three overlapping grids with clearly different values
/// (served by `GridCtx`): a set scattered over all of them, their overlaps, margins and the
/// outside, against every member alone and against the set in reverse order, both directions
fn grid_sets(h: &H, idx: u64, rng: &mut Rng) {
    use crate::gridgen::{GridCtx, GridSpec, D2R};
    use std::sync::Arc;
    let bands = 1 + rng.below(3);
    let n = 2 + rng.below(2);
    let base = loop {
        let s = GridSpec::random(rng, bands, false);
        if s.lon_e < 165.0 && s.lon_w > -165.0 && s.lat_n < 80.0 && s.lat_s > -80.0 {
            break s;
        }
    };
    let ext = ["geoid", "datum", "deformation"][bands - 1];
    let mut ctx = GridCtx::new();
    let mut names = Vec::new();
    let mut models = Vec::new();
    for k in 0..n {
        let mut s = if k == 0 { base.clone() } else { GridSpec::random(rng, bands, false) };
        if k > 0 {
            s.dlat = base.dlat;
            s.dlon = base.dlon;
            s.lat_s = base.lat_s + base.dlat * 0.5 * rng.int(-5, 5) as f64;
            s.lon_w = base.lon_w + base.dlon * 0.5 * rng.int(-5, 5) as f64;
            s.lat_n = s.lat_s + s.dlat * (s.rows - 1) as f64;
            s.lon_e = s.lon_w + s.dlon * (s.cols - 1) as f64;
            for x in s.values.iter_mut() {
                *x += 100.0 * k as f32;
            }
            if !(s.lon_e < 175.0 && s.lon_w > -175.0 && s.lat_n < 85.0 && s.lat_s > -85.0) {
                return;
            }
        }
        let Ok(g) = BaseGrid::gravsoft(s.gravsoft(rng).as_bytes()) else { return };
        let name = format!("s{k}.{ext}");
        ctx.grids.insert(name.clone(), Arc::new(g));
        names.push(name);
        models.push(s.model());
    }
    if rng.chance(0.3) {
        names.push("@null".into());
    }
    let def = match bands {
        3 if rng.chance(0.5) => format!("deformation grids={} dt=12.5", names.join(",")),
        3 => format!("deformation grids={} t_epoch=2001.5", names.join(",")),
        _ => format!("gridshift grids={}", names.join(",")),
    };
    let Ok(op) = ctx.op(&def) else {
        h.violation(idx, "C02/instantiation-failed", J::obj().set("definition", &def));
        return;
    };
    h.class(&format!("grid-lists/{ext}/{n}-grids"));
    let e = Ellipsoid::default();
    let len = 6 + rng.below(12);
    let mut set: Vec<[f64; 4]> = Vec::with_capacity(len);
    for _ in 0..len {
        let m = &models[rng.below(n)];
        let lon = m.lon_w + rng.range(-0.3, 1.3) * (m.lon_e - m.lon_w);
        let lat = m.lat_s + rng.range(-0.3, 1.3) * (m.lat_n - m.lat_s);
        if lon.abs() > 179.0 * D2R || lat.abs() > 89.0 * D2R {
            continue;
        }
        let t = *rng.pick(&[2001.5, 2010.0, 1995.25, 2030.0]);
        set.push(if bands == 3 {
            let c = e.cartesian(&Coor4D([lon, lat, rng.range(0.0, 300.0), 0.0]));
            [c[0], c[1], c[2], t]
        } else {
            [lon, lat, rng.range(0.0, 300.0), t]
        });
    }
    if set.len() < 2 {
        return;
    }
    h.distinct(mix(hash_str(&def), set.iter().fold(0, |a, p| mix(a, hash_f64s(p)))));
    for d in [D::F, D::I] {
        let mut batch = to_c4(&set);
        let cb = apply_set(&ctx, op, d, &mut batch);
        let mut rev: Vec<Coor4D> = to_c4(&set).into_iter().rev().collect();
        let cr = apply_set(&ctx, op, d, &mut rev);
        rev.reverse();
        let mut sum = 0;
        for (i, p) in set.iter().enumerate() {
            let (alone, c1) = apply1(&ctx, op, d, *p);
            sum += c1;
            h.eval(2);
            if !same_bits(&batch[i].0, &alone) {
                report(h, idx, "single-vs-batch", "grid-list", d.name(), &def, &set, i, &batch[i].0, &alone);
                return;
            }
            if !same_bits(&batch[i].0, &rev[i].0) {
                report(h, idx, "permuted-vs-batch", "grid-list", d.name(), &def, &set, i, &batch[i].0, &rev[i].0);
                return;
            }
        }
        if cb != sum || cr != sum {
            h.violation(idx, &format!("C02/count-of-whole-differs-from-sum-of-parts/grid-list/{}", d.name()), J::obj().set("definition", &def).set("whole", cb).set("reversed", cr).set("sum_of_singles", sum));
            return;
        }
    }
}

#[allow(clippy::too_many_arguments)]
fn one(h: &H, idx: u64, def: &str, inst: Option<&catalog::Inst>, domain: &str, elementary: bool, epochs: &[f64], rng: &mut Rng) {
    let mut ctx = Plain::new();
    let op = match ctx.op(def) {
        Ok(op) => op,
        Err(e) => {
            h.violation(idx, "C02/instantiation-failed", J::obj().set("definition", def).set("error", format!("{e}")));
            return;
        }
    };
    let name = def.split_whitespace().next().unwrap_or("");
    let mut len = *rng.pick(&[0usize, 1, 2, 3, 17, 17, 40, if h.quick() { 300 } else { 2000 }]);
    if !h.quick() {
        // the long sets of the quantifier (up to 10^5 members), now and then
        match rng.below(2000) {
            0 => len = 100_000,
            1..=4 => len = 25_001,
            _ => {}
        }
    }
    let set = gen_set(rng, inst, domain, len, epochs);
    h.max("longest set (tuples)", len as f64, || def.to_string());
    h.distinct(mix(hash_str(def), set.iter().fold(len as u64, |a, p| mix(a, hash_f64s(p)))));
    if h.want_sample() && idx % 37 == 0 {
        h.sample(J::obj().set("definition", def).set("set_length", len).set("first", if len > 0 { J::coords(&set[0]) } else { J::Null }));
    }
    for d in [D::F, D::I] {
        let dn = d.name();
        // reference: the whole set at once, on a handle that has seen an arbitrary history
        if rng.chance(0.5) {
            for _ in 0..rng.below(6) {
                let hl = rng.below(5);
                let mut other = to_c4(&gen_set(rng, inst, domain, hl, epochs));
                let hd = if rng.chance(0.5) { D::F } else { D::I };
                apply_set(&ctx, op, hd, &mut other);
            }
            h.class("route/history");
        }
        let mut batch = to_c4(&set);
        let count = apply_set(&ctx, op, d, &mut batch);
        h.eval(len as u64);
        h.class(&format!("op/{name}/{dn}"));
        if count != usize::MAX && count > len {
            h.violation(
                idx,
                &format!("C02/count-exceeds-length/{name}/{dn}"),
                J::obj().set("definition", def).set("count", count).set("length", len),
            );
        }

        // singles
        let mut sum = 0usize;
        for (i, p) in set.iter().enumerate() {
            let (r, c) = apply1(&ctx, op, d, *p);
            if c != usize::MAX {
                sum += c;
            }
            if !same_bits(&r, &batch[i].0) {
                report(h, idx, "single-vs-batch", name, dn, def, &set, i, &batch[i].0, &r);
                return;
            }
        }
        h.class("route/singles");
        if elementary && count != usize::MAX && sum != count {
            h.violation(
                idx,
                &format!("C02/count-not-additive/{name}/{dn}"),
                J::obj()
                    .set("definition", def)
                    .set("count_of_whole", count)
                    .set("sum_of_singles", sum)
                    .set("length", len)
                    .set("set", J::Arr(set.iter().take(20).map(|p| J::bits(p)).collect())),
            );
        }

        // a permutation
        if len > 1 {
            let mut order: Vec<usize> = (0..len).collect();
            rng.shuffle(&mut order);
            let mut perm: Vec<Coor4D> = order.iter().map(|&i| Coor4D(set[i])).collect();
            apply_set(&ctx, op, d, &mut perm);
            for (k, &i) in order.iter().enumerate() {
                if !same_bits(&perm[k].0, &batch[i].0) {
                    report(h, idx, "permuted-vs-batch", name, dn, def, &set, i, &batch[i].0, &perm[k].0);
                    return;
                }
            }
            h.class("route/permutation");
        }

        // chunks (every boundary for small sets, random boundaries otherwise)
        if len > 1 {
            let cuts: Vec<usize> = if len <= 17 {
                (1..len).collect()
            } else {
                (0..6).map(|_| 1 + rng.below(len - 1)).collect()
            };
            for cut in cuts {
                let mut a = to_c4(&set[..cut]);
                let mut b = to_c4(&set[cut..]);
                let ca = apply_set(&ctx, op, d, &mut a);
                let cb = apply_set(&ctx, op, d, &mut b);
                for i in 0..len {
                    let r = if i < cut { a[i].0 } else { b[i - cut].0 };
                    if !same_bits(&r, &batch[i].0) {
                        report(h, idx, "chunked-vs-batch", name, dn, def, &set, i, &batch[i].0, &r);
                        return;
                    }
                }
                if elementary && count != usize::MAX && ca != usize::MAX && cb != usize::MAX && ca + cb != count {
                    h.violation(
                        idx,
                        &format!("C02/count-not-additive/{name}/{dn}"),
                        J::obj().set("definition", def).set("count_of_whole", count).set("count_of_parts", J::Arr(vec![ca.into(), cb.into()])).set("cut", cut),
                    );
                }
            }
            h.class("route/chunks");
        }

        // repetition on a fresh copy
        let mut again = to_c4(&set);
        let c2 = apply_set(&ctx, op, d, &mut again);
        for i in 0..len {
            if !same_bits(&again[i].0, &batch[i].0) {
                report(h, idx, "repeated-vs-first", name, dn, def, &set, i, &batch[i].0, &again[i].0);
                return;
            }
        }
        if c2 != count {
            h.violation(
                idx,
                &format!("C02/count-changes-on-repetition/{name}/{dn}"),
                J::obj().set("definition", def).set("first", count).set("second", c2),
            );
        }

        containers(h, idx, &ctx, op, d, def, name, &set, rng, elementary);
    }
}

#[allow(clippy::too_many_arguments)]
fn report(h: &H, idx: u64, route: &str, name: &str, dn: &str, def: &str, set: &[[f64; 4]], i: usize, batch: &[f64; 4], other: &[f64; 4]) {
    h.violation(
        idx,
        &format!("C02/{route}/{name}/{dn}"),
        J::obj()
            .set("definition", def)
            .set("direction", dn)
            .set("position", i)
            .set("set_length", set.len())
            .set("tuple", J::bits(&set[i]))
            .set("neighbours_before", J::Arr(set[i.saturating_sub(3)..i].iter().map(|p| J::coords(p)).collect()))
            .set("in_batch", J::bits(batch))
            .set("other_route", J::bits(other)),
    );
}

/// The same tuples through every supported container: the dimensions a container stores must
/// come back as for the 4D tuples the container presents through get_coord
#[allow(clippy::too_many_arguments)]
fn containers(h: &H, idx: u64, ctx: &Plain, op: OpHandle, d: D, def: &str, name: &str, set: &[[f64; 4]], rng: &mut Rng, elementary: bool) {
    if set.is_empty() {
        return;
    }
    let n = set.len().min(8);
    let set = &set[..n];
    let hfix = rng.short_decimal(-100.0, 1000.0, 1);
    let tfix = rng.short_decimal(1990.0, 2030.0, 1);

    macro_rules! check {
        ($label:expr, $cont:expr, $fresh:expr) => {{
            let mut cont = $cont;
            // what the container presents
            let presented: Vec<Coor4D> = (0..cont.len()).map(|i| cont.get_coord(i)).collect();
            let mut four = presented.clone();
            let _ = ctx.apply(op, d.dir(), &mut four);
            let _ = ctx.apply(op, d.dir(), &mut cont);
            // store the 4D results in a fresh container of the same kind and read back
            let mut fresh = $fresh;
            for (i, c) in four.iter().enumerate() {
                fresh.set_coord(i, c);
            }
            for i in 0..cont.len() {
                let a = cont.get_coord(i).0;
                let b = fresh.get_coord(i).0;
                if !same_bits(&a, &b) {
                    h.violation(
                        idx,
                        &format!("C02/container/{}/{name}/{}", $label, d.name()),
                        J::obj()
                            .set("definition", def)
                            .set("container", $label)
                            .set("position", i)
                            .set("presented_tuple", J::bits(&presented[i].0))
                            .set("through_container", J::bits(&a))
                            .set("through_4d_then_stored", J::bits(&b)),
                    );
                    break;
                }
            }
            h.class(&format!("container/{}", $label));
        }};
    }

    let v4: Vec<Coor4D> = set.iter().map(|p| Coor4D(*p)).collect();
    let v3: Vec<Coor3D> = set.iter().map(|p| Coor3D([p[0], p[1], p[2]])).collect();
    let v2: Vec<Coor2D> = set.iter().map(|p| Coor2D([p[0], p[1]])).collect();
    let v32: Vec<Coor32> = set.iter().map(|p| Coor32([p[0] as f32, p[1] as f32])).collect();

    check!("Vec<Coor4D>", v4.clone(), v4.clone());
    {
        let mut a = v4.clone();
        let mut b = v4.clone();
        check!("&mut [Coor4D]", &mut a[..], &mut b[..]);
    }
    if n >= 3 {
        let a4 = [v4[0], v4[1], v4[2]];
        check!("[Coor4D; 3]", a4, a4);
    }
    if !elementary {
        // In a pipeline the container itself carries the intermediate results from step to
        // step, so a container that drops a dimension (or rounds to f32) legitimately differs
        // from the 4D computation: the container clause is checked for single operators
        return;
    }
    check!("Vec<Coor3D>", v3.clone(), v3.clone());
    check!("Vec<Coor2D>", v2.clone(), v2.clone());
    check!("Vec<Coor32>", v32.clone(), v32.clone());
    {
        let mut a = v2.clone();
        let mut b = v2.clone();
        check!("&mut [Coor2D]", &mut a[..], &mut b[..]);
    }
    if n >= 3 {
        let a3 = [v3[0], v3[1], v3[2]];
        check!("[Coor3D; 3]", a3, a3);
        let a2 = [v2[0], v2[1], v2[2]];
        check!("[Coor2D; 3]", a2, a2);
        let a32 = [v32[0], v32[1], v32[2]];
        check!("[Coor32; 3]", a32, a32);
    }
    check!("(Vec<Coor3D>, t)", (v3.clone(), tfix), (v3.clone(), tfix));
    check!("(Vec<Coor2D>, h, t)", (v2.clone(), hfix, tfix), (v2.clone(), hfix, tfix));
    check!("(Vec<Coor32>, h, t)", (v32.clone(), hfix, tfix), (v32.clone(), hfix, tfix));

    // the adapters against their definition (not against what they present themselves): the
    // stored dimensions must come out as for the 4D tuple (stored..., fixed height, fixed epoch)
    macro_rules! by_definition {
        ($label:expr, $cont:expr, $defs:expr, $stored:expr, $f32:expr) => {{
            let mut cont = $cont;
            let mut four: Vec<Coor4D> = $defs;
            let _ = ctx.apply(op, d.dir(), &mut four);
            let _ = ctx.apply(op, d.dir(), &mut cont);
            for i in 0..cont.len() {
                let a = cont.get_coord(i).0;
                let ok = (0..$stored).all(|k| {
                    let want = if $f32 { (four[i][k] as f32) as f64 } else { four[i][k] };
                    canon(a[k]) == canon(want)
                });
                if !ok {
                    h.violation(
                        idx,
                        &format!("C02/container-by-definition/{}/{name}/{}", $label, d.name()),
                        J::obj()
                            .set("definition", def)
                            .set("container", $label)
                            .set("position", i)
                            .set("fixed_height_and_epoch", J::coords(&[hfix, tfix]))
                            .set("through_container", J::bits(&a))
                            .set("through_4d_tuple", J::bits(&four[i].0)),
                    );
                    break;
                }
            }
            h.class(&format!("container-by-definition/{}", $label));
        }};
    }
    by_definition!("(Vec<Coor3D>, t)", (v3.clone(), tfix), set.iter().map(|p| Coor4D([p[0], p[1], p[2], tfix])).collect(), 3, false);
    by_definition!("(Vec<Coor2D>, h, t)", (v2.clone(), hfix, tfix), set.iter().map(|p| Coor4D([p[0], p[1], hfix, tfix])).collect(), 2, false);
    by_definition!(
        "(Vec<Coor32>, h, t)",
        (v32.clone(), hfix, tfix),
        set.iter().map(|p| Coor4D([(p[0] as f32) as f64, (p[1] as f32) as f64, hfix, tfix])).collect(),
        2,
        true
    );
}
