//! C07 - Helmert is a similarity with the declared conventions and epochs; molodensky agrees
//! with the cartesian 3-parameter path it approximates.

use crate::catalog::{self, HelmertSpec, D2R, HELMERT_ASPECTS};
use crate::geo::Ell;
use crate::harness::{hash_str, H};
use crate::json::J;
use crate::rng::Rng;
use crate::util::*;
use geodesy::authoring::*;

const AS2R: f64 = D2R / 3600.0;

fn f(ctx: &Minimal, op: OpHandle, x: [f64; 4]) -> [f64; 4] {
    apply1(ctx, op, D::F, x).0
}

fn sub3(a: &[f64; 4], b: &[f64; 4]) -> [f64; 3] {
    [a[0] - b[0], a[1] - b[1], a[2] - b[2]]
}

fn norm3(a: &[f64; 3]) -> f64 {
    (a[0] * a[0] + a[1] * a[1] + a[2] * a[2]).sqrt()
}

/// The static parameter set the dynamic one evaluates to at epoch t
fn at_epoch(s: &HelmertSpec, t: f64) -> HelmertSpec {
    let dt = t - s.t_epoch;
    HelmertSpec {
        t: [s.t[0] + dt * s.dt[0], s.t[1] + dt * s.dt[1], s.t[2] + dt * s.dt[2]],
        r: [s.r[0] + dt * s.dr[0], s.r[1] + dt * s.dr[1], s.r[2] + dt * s.dr[2]],
        s: s.s + dt * s.ds,
        dt: [0.0; 3],
        dr: [0.0; 3],
        ds: 0.0,
        t_epoch: s.t_epoch,
        t_obs: None,
        exact: s.exact,
        position_vector: s.position_vector,
        list_form: s.list_form,
    }
}

/// EPSG Guidance Note 7-2 position vector matrix for small angles
fn epsg_pv(r: &[f64; 3]) -> [[f64; 3]; 3] {
    let (rx, ry, rz) = (r[0] * AS2R, r[1] * AS2R, r[2] * AS2R);
    [[1.0, -rz, ry], [rz, 1.0, -rx], [-ry, rx, 1.0]]
}

fn transpose(m: &[[f64; 3]; 3]) -> [[f64; 3]; 3] {
    let mut t = [[0.0; 3]; 3];
    for i in 0..3 {
        for j in 0..3 {
            t[i][j] = m[j][i];
        }
    }
    t
}

fn rand_point(rng: &mut Rng, t: f64) -> [f64; 4] {
    let r = 1.0e7 * rng.f().cbrt();
    let z = rng.range(-1.0, 1.0);
    let l = rng.range(0.0, 2.0 * std::f64::consts::PI);
    let c = (1.0 - z * z).sqrt();
    [r * c * l.cos(), r * c * l.sin(), r * z, t]
}

pub fn run(h: &H) {
    let n = h.budget(20_000, 2_000_000);
    for idx in h.cases(n) {
        let mut rng = h.rng(idx);
        if idx % 5 == 4 {
            let desc = format!("molodensky vs helmert path, case {idx}");
            h.guard(idx, &desc, || molodensky_case(h, idx, &mut rng));
        } else {
            let aspect = HELMERT_ASPECTS[(idx as usize / 5) % HELMERT_ASPECTS.len()];
            let mut spec = HelmertSpec::random(&mut rng, aspect);
            // rotation-free sets with rates (the shape of the published ITRF to ITRF parameters)
            if aspect.starts_with("p14") && rng.chance(0.25) {
                spec.r = [0.0; 3];
                spec.dr = [0.0; 3];
            }
            // ... and sets where only one kind of rate is present
            if aspect.starts_with("p14") && rng.chance(0.2) {
                match rng.below(3) {
                    0 => {
                        spec.dt = [0.0; 3];
                        spec.ds = 0.0;
                    }
                    1 => {
                        spec.dr = [0.0; 3];
                        spec.ds = 0.0;
                    }
                    _ => {
                        spec.dt = [0.0; 3];
                        spec.dr = [0.0; 3];
                    }
                }
            }
            let def = spec.def();
            h.guard(idx, &def, || helmert_case(h, idx, aspect, &spec, &mut rng));
        }
    }
}

fn viol(h: &H, idx: u64, sig: &str, def: &str, extra: J) {
    h.violation(idx, &format!("C07/{sig}"), extra.set("definition", def));
}

fn helmert_case(h: &H, idx: u64, aspect: &str, spec: &HelmertSpec, rng: &mut Rng) {
    let def = spec.def();
    let mut ctx = Minimal::new();
    let op = match ctx.op(&def) {
        Ok(op) => op,
        Err(e) => {
            viol(h, idx, "instantiation-failed", &def, J::obj().set("error", format!("{e}")));
            return;
        }
    };
    h.class(&format!("helmert/{aspect}/{}", if spec.position_vector { "pv" } else { "cf" }));
    h.distinct(hash_str(&def));
    if h.want_sample() && idx % 50 == 0 {
        h.sample(J::obj().set("definition", &def).set("aspect", aspect));
    }

    // the epoch at which a tuple is evaluated: its own, or t_obs
    let t_tuple = rng.short_decimal(1900.0, 2100.0, 2);
    let t_eff = if spec.dynamic() { spec.t_obs.unwrap_or(t_tuple) } else { t_tuple };
    let now = if spec.dynamic() { at_epoch(spec, t_eff) } else { at_epoch(spec, spec.t_epoch) };
    let scale = 1.0 + now.s * 1e-6;

    // --- f(0) is the translation, the 4th element is untouched -----------------------
    let origin = [0.0, 0.0, 0.0, t_tuple];
    let f0 = f(&ctx, op, origin);
    h.eval(1);
    for i in 0..3 {
        let tol = 4.0 * crate::geo::ulp(now.t[i].abs().max(1.0)) + 1e-12 * (t_eff - spec.t_epoch).abs();
        if !((f0[i] - now.t[i]).abs() <= tol) {
            viol(
                h,
                idx,
                &format!("translation/{aspect}"),
                &def,
                J::obj()
                    .set("what", "f(0) differs from the translation evaluated at the tuple's epoch")
                    .set("axis", i)
                    .set("expected", now.t[i])
                    .set("got", f0[i])
                    .set("epoch", t_eff),
            );
        }
    }
    if f0[3].to_bits() != t_tuple.to_bits() {
        viol(h, idx, "fourth-element-changed", &def, J::obj().set("in", t_tuple).set("out", f0[3]));
    }

    // --- the linear part ---------------------------------------------------------------
    let big = 1.0e6;
    let mut m = [[0.0f64; 3]; 3];
    for j in 0..3 {
        let mut e = origin;
        e[j] = big;
        let fe = f(&ctx, op, e);
        for i in 0..3 {
            m[i][j] = (fe[i] - f0[i]) / (scale * big);
        }
    }
    h.eval(3);
    let rr: f64 = now.r.iter().map(|r| (r * AS2R).powi(2)).sum();

    if spec.rotated() {
        if spec.exact {
            // proper rotation: M^T M = I, det = +1
            let mut worst: f64 = 0.0;
            for i in 0..3 {
                for j in 0..3 {
                    let d: f64 = (0..3).map(|k| m[k][i] * m[k][j]).sum();
                    worst = worst.max((d - if i == j { 1.0 } else { 0.0 }).abs());
                }
            }
            h.max("exact: |M^T M - I|", worst, || def.clone());
            if !(worst <= 1e-11) {
                viol(h, idx, "exact-not-orthogonal", &def, J::obj().set("max_deviation", worst));
            }
            let det = m[0][0] * (m[1][1] * m[2][2] - m[1][2] * m[2][1])
                - m[0][1] * (m[1][0] * m[2][2] - m[1][2] * m[2][0])
                + m[0][2] * (m[1][0] * m[2][1] - m[1][1] * m[2][0]);
            if !((det - 1.0).abs() <= 1e-10) {
                viol(h, idx, "exact-not-proper", &def, J::obj().set("det", det));
            }
        }
        // against the EPSG matrix: element-wise for small angles, to 2|r|^2 in exact mode
        let pv = epsg_pv(&now.r);
        let want = if spec.position_vector { pv } else { transpose(&pv) };
        let mut worst: f64 = 0.0;
        for i in 0..3 {
            for j in 0..3 {
                worst = worst.max((m[i][j] - want[i][j]).abs());
            }
        }
        let tol = if spec.exact { 2.0 * rr + 1e-12 } else { 1e-12 };
        h.max(
            if spec.exact { "exact: |M - EPSG| / (2|r|^2)" } else { "approx: |M - EPSG| / 1e-12" },
            worst / tol,
            || def.clone(),
        );
        if !(worst <= tol) && (!spec.exact || rr < 1e-4) {
            viol(
                h,
                idx,
                &format!("convention/{}/{}", if spec.exact { "exact" } else { "approx" }, if spec.position_vector { "pv" } else { "cf" }),
                &def,
                J::obj()
                    .set("what", "linear part differs from the EPSG GN7-2 matrix of the declared convention")
                    .set("max_element_difference", worst)
                    .set("tolerance", tol)
                    .set("row0", J::coords(&m[0]))
                    .set("row1", J::coords(&m[1]))
                    .set("row2", J::coords(&m[2])),
            );
        }
    }

    // --- similarity: distances scale by (1+s); linearity ----------------------------------
    let x = rand_point(rng, t_tuple);
    let y = rand_point(rng, t_tuple);
    let fx = f(&ctx, op, x);
    let fy = f(&ctx, op, y);
    h.eval(2);
    let d_in = norm3(&sub3(&x, &y));
    let d_out = norm3(&sub3(&fx, &fy));
    let want = scale * d_in;
    let tol = if spec.exact || !spec.rotated() { 1e-12 * d_in + 1e-8 } else { 2.0 * rr * d_in + 1e-8 };
    h.max("similarity residual / tolerance", (d_out - want).abs() / tol, || def.clone());
    if !((d_out - want).abs() <= tol) {
        viol(
            h,
            idx,
            &format!("similarity/{aspect}"),
            &def,
            J::obj()
                .set("what", "|f(x)-f(y)| differs from (1+s)|x-y|")
                .set("x", J::bits(&x))
                .set("y", J::bits(&y))
                .set("distance_in", d_in)
                .set("distance_out", d_out)
                .set("expected", want)
                .set("tolerance", tol),
        );
    }
    let xy = [x[0] + y[0], x[1] + y[1], x[2] + y[2], t_tuple];
    let fxy = f(&ctx, op, xy);
    for i in 0..3 {
        let lin = fx[i] + fy[i] - f0[i];
        if !((fxy[i] - lin).abs() <= 1e-7) {
            viol(h, idx, "not-affine", &def, J::obj().set("axis", i).set("f(x+y)", fxy[i]).set("f(x)+f(y)-f(0)", lin));
        }
    }

    // --- the two conventions: PV(r) == CF(-r) bit for bit in small-angle mode -------------
    if spec.rotated() && !spec.exact {
        let mut other = HelmertSpec { ..at_epoch(spec, spec.t_epoch) };
        other.dt = spec.dt;
        other.dr = [-spec.dr[0], -spec.dr[1], -spec.dr[2]];
        other.ds = spec.ds;
        other.t_obs = spec.t_obs;
        other.r = [-spec.r[0], -spec.r[1], -spec.r[2]];
        other.position_vector = !spec.position_vector;
        let odef = other.def();
        if let Ok(op2) = ctx.op(&odef) {
            let g = f(&ctx, op2, x);
            h.eval(1);
            if !same_bits(&g, &fx) {
                viol(
                    h,
                    idx,
                    "conventions-not-transposes",
                    &def,
                    J::obj()
                        .set("other_definition", &odef)
                        .set("x", J::bits(&x))
                        .set("this", J::bits(&fx))
                        .set("other", J::bits(&g)),
                );
            }
        }
    }

    // --- exact mode: with the same angles the two conventions are transposes of each other ---
    if spec.rotated() && spec.exact {
        let mut other = HelmertSpec { ..at_epoch(spec, spec.t_epoch) };
        other.dt = spec.dt;
        other.dr = spec.dr;
        other.ds = spec.ds;
        other.t_obs = spec.t_obs;
        other.position_vector = !spec.position_vector;
        let odef = other.def();
        if let Ok(op2) = ctx.op(&odef) {
            let g0 = f(&ctx, op2, origin);
            let mut worst: f64 = 0.0;
            for j in 0..3 {
                let mut e = origin;
                e[j] = big;
                let ge = f(&ctx, op2, e);
                for i in 0..3 {
                    let m2 = (ge[i] - g0[i]) / (scale * big);
                    worst = worst.max((m2 - m[j][i]).abs());
                }
            }
            h.eval(4);
            h.max("exact: |M_pv - M_cf^T|", worst, || def.clone());
            if !(worst <= 1e-11) {
                viol(h, idx, "conventions-not-transposes/exact", &def, J::obj().set("other_definition", &odef).set("max_element_difference", worst));
            }
        }
    }

    // --- alias forms are interchangeable (bit-identical) ------------------------------------
    {
        let mut alias = at_epoch(spec, spec.t_epoch);
        alias.dt = spec.dt;
        alias.dr = spec.dr;
        alias.ds = spec.ds;
        alias.t_obs = spec.t_obs;
        alias.list_form = !spec.list_form;
        let adef = alias.def();
        match ctx.op(&adef) {
            Ok(op2) => {
                let g = f(&ctx, op2, x);
                h.eval(1);
                if !same_bits(&g, &fx) {
                    viol(
                        h,
                        idx,
                        "alias-forms-differ",
                        &def,
                        J::obj().set("alias_definition", &adef).set("x", J::bits(&x)).set("this", J::bits(&fx)).set("alias", J::bits(&g)),
                    );
                }
            }
            Err(e) => viol(h, idx, "alias-form-rejected", &def, J::obj().set("alias_definition", &adef).set("error", format!("{e}"))),
        }
    }

    // --- rates: each tuple at its own epoch, whatever its neighbours -------------------------
    if spec.dynamic() {
        let pool = [
            rng.short_decimal(1900.0, 2100.0, 2),
            rng.short_decimal(1900.0, 2100.0, 2),
            spec.t_epoch,
            f64::NAN,
        ];
        let k = 9;
        let mut set: Vec<Coor4D> = Vec::new();
        let mut epochs = Vec::new();
        for j in 0..k {
            let m = if rng.chance(0.2) { 4 } else { 3 };
            let t = if j < 2 { pool[j % 2] } else { pool[rng.below(m)] };
            epochs.push(t);
            set.push(Coor4D(rand_point(rng, t)));
        }
        let input = set.clone();
        apply_set(&ctx, op, D::F, &mut set);
        h.eval(k as u64);
        for j in 0..k {
            let t = epochs[j];
            let te = spec.t_obs.unwrap_or(t);
            if te.is_nan() {
                h.class("dynamic/nan-epoch-member");
                continue;
            }
            let stat = at_epoch(spec, te);
            let sdef = stat.def();
            let Ok(sop) = ctx.op(&sdef) else {
                continue;
            };
            let want = f(&ctx, sop, input[j].0);
            let got = set[j].0;
            let d = norm3(&sub3(&want, &got));
            h.max("dynamic vs static-at-epoch (m)", d, || def.clone());
            if !(d <= 5e-8) {
                viol(
                    h,
                    idx,
                    &format!("epoch-evaluation/{}", if spec.t_obs.is_some() { "t_obs" } else { "tuple-epoch" }),
                    &def,
                    J::obj()
                        .set("what", "tuple not transformed with P + (t - t_epoch) dP")
                        .set("static_definition_at_epoch", &sdef)
                        .set("position_in_set", j)
                        .set("epochs_of_set", J::coords(&epochs))
                        .set("input", J::bits(&input[j].0))
                        .set("got", J::bits(&got))
                        .set("expected", J::bits(&want))
                        .set("difference_m", d),
                );
                break;
            }
        }
        h.class(if spec.t_obs.is_some() { "dynamic/t_obs" } else { "dynamic/tuple-epoch" });

        // t_obs = tau is the same as giving the tuple the epoch tau
        if let Some(tau) = spec.t_obs {
            let mut free = at_epoch(spec, spec.t_epoch);
            free.dt = spec.dt;
            free.dr = spec.dr;
            free.ds = spec.ds;
            free.t_obs = None;
            if let Ok(fop) = ctx.op(&free.def()) {
                let mut p = x;
                p[3] = tau;
                let a = f(&ctx, fop, p);
                let b = f(&ctx, op, x);
                let d = norm3(&sub3(&a, &b));
                if !(d <= 5e-8) {
                    viol(
                        h,
                        idx,
                        "t_obs-not-equivalent-to-tuple-epoch",
                        &def,
                        J::obj().set("x", J::bits(&x)).set("with_t_obs", J::bits(&b)).set("with_tuple_epoch", J::bits(&a)).set("difference_m", d),
                    );
                }
            }
        }
    }

    // --- inverse ------------------------------------------------------------------------------
    let (back, _) = apply1(&ctx, op, D::I, fx);
    let d = norm3(&sub3(&back, &x));
    let tol = if spec.exact || !spec.rotated() {
        1e-7
    } else {
        let rr_all: f64 = (0..3)
            .map(|i| (now.r[i].abs() * AS2R).powi(2))
            .sum();
        3.0 * rr_all * 1.0e7 + 1e-7
    };
    h.max("inverse residual / tolerance", d / tol, || def.clone());
    if !(d <= tol) {
        viol(
            h,
            idx,
            &format!("inverse/{aspect}"),
            &def,
            J::obj().set("x", J::bits(&x)).set("forward", J::bits(&fx)).set("back", J::bits(&back)).set("difference_m", d).set("tolerance", tol),
        );
    }
}

fn builtin(rng: &mut Rng) -> (String, Ell) {
    loop {
        let (n, e) = catalog::pick_ellps(rng, false);
        if !n.contains(',') {
            return (n, e);
        }
    }
}

fn molodensky_case(h: &H, idx: u64, rng: &mut Rng) {
    let (n0, e0) = builtin(rng);
    let (n1, e1) = builtin(rng);
    let abridged = rng.chance(0.4);
    let d = [
        rng.short_decimal(-300.0, 300.0, 2),
        rng.short_decimal(-300.0, 300.0, 2),
        rng.short_decimal(-300.0, 300.0, 2),
    ];
    // the target ellipsoid by name, or as the differences da and df from a source given as
    // `ellps` or as `ellps_0`
    let form = rng.below(3);
    let pair = match form {
        0 => format!("ellps_0={n0} ellps_1={n1}"),
        1 => format!("ellps={n0} da={} df={}", num(e1.a - e0.a), num(e1.f - e0.f)),
        _ => format!("ellps_0={n0} da={} df={}", num(e1.a - e0.a), num(e1.f - e0.f)),
    };
    let mdef = format!(
        "molodensky {pair} dx={} dy={} dz={}{}",
        num(d[0]),
        num(d[1]),
        num(d[2]),
        if abridged { " abridged" } else { "" }
    );
    let hdef = format!(
        "cart ellps={n0} | helmert x={} y={} z={} | cart inv ellps={n1}",
        num(d[0]),
        num(d[1]),
        num(d[2])
    );
    let mut ctx = Minimal::new();
    let (mop, hop) = match (ctx.op(&mdef), ctx.op(&hdef)) {
        (Ok(a), Ok(b)) => (a, b),
        (a, b) => {
            h.violation(
                idx,
                "C07/molodensky/instantiation-failed",
                J::obj().set("molodensky", &mdef).set("helmert_path", &hdef).set("errors", format!("{:?} {:?}", a.err(), b.err())),
            );
            return;
        }
    };
    h.class(if abridged { "molodensky/abridged" } else { "molodensky/standard" });
    h.class(["molodensky/ellps_0+ellps_1", "molodensky/ellps+da+df", "molodensky/ellps_0+da+df"][form]);
    h.distinct(hash_str(&mdef));
    let dd = d[0].abs() + d[1].abs() + d[2].abs() + (e1.a - e0.a).abs() + e0.a * (e1.f - e0.f).abs();
    for _ in 0..6 {
        let lon = rng.range(-180.0, 180.0) * D2R;
        let lat = rng.range(-85.0, 85.0) * D2R;
        let hgt = rng.range(-500.0, 9000.0);
        let p = [lon, lat, hgt, 2000.0];
        let (a, _) = apply1(&ctx, mop, D::F, p);
        let (b, _) = apply1(&ctx, hop, D::F, p);
        h.eval(2);
        let r = e1.ground(a[0], a[1], b[0], b[1]).max((a[2] - b[2]).abs());
        let mut tol = 5.0e-3 + dd * dd / e0.a / lat.cos();
        if abridged {
            tol += 2.0 * dd * (e0.es() + hgt.abs() / e0.a);
        }
        h.max(
            if abridged { "molodensky abridged / bound" } else { "molodensky standard / bound" },
            r / tol,
            || format!("{mdef} at {}", fmt4(&p)),
        );
        if !(r <= tol) {
            h.violation(
                idx,
                &format!("C07/molodensky/{}", if abridged { "abridged" } else { "standard" }),
                J::obj()
                    .set("molodensky", &mdef)
                    .set("helmert_path", &hdef)
                    .set("input", J::bits(&p))
                    .set("molodensky_result", J::bits(&a))
                    .set("helmert_result", J::bits(&b))
                    .set("difference_m", r)
                    .set("bound_m", tol),
            );
            break;
        }
    }
    // one place at several heights, as one set (a mast, a borehole, flight levels): every member
    // agrees with the Helmert path like a tuple on its own
    let lon = rng.range(-180.0, 180.0) * D2R;
    let lat = rng.range(-80.0, 80.0) * D2R;
    let mut set: Vec<Coor4D> = (0..4).map(|k| Coor4D([lon, lat, -200.0 + 2500.0 * k as f64 * rng.range(0.5, 1.5), 2000.0])).collect();
    let input = set.clone();
    let mut via = set.clone();
    apply_set(&ctx, mop, D::F, &mut set);
    apply_set(&ctx, hop, D::F, &mut via);
    for k in 0..set.len() {
        h.eval(1);
        let hgt = input[k][2];
        let r = e1.ground(set[k][0], set[k][1], via[k][0], via[k][1]).max((set[k][2] - via[k][2]).abs());
        let mut tol = 5.0e-3 + dd * dd / e0.a / lat.cos();
        if abridged {
            tol += 2.0 * dd * (e0.es() + hgt.abs() / e0.a);
        }
        if !(r <= tol) {
            h.violation(
                idx,
                &format!("C07/molodensky/{}/same-place-several-heights", if abridged { "abridged" } else { "standard" }),
                J::obj()
                    .set("molodensky", &mdef)
                    .set("helmert_path", &hdef)
                    .set("position_in_set", k)
                    .set("input", J::bits(&input[k].0))
                    .set("molodensky_result", J::bits(&set[k].0))
                    .set("helmert_result", J::bits(&via[k].0))
                    .set("difference_m", r)
                    .set("bound_m", tol),
            );
            break;
        }
    }
    h.class("molodensky/same-place-several-heights");
}
