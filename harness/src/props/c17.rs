//! C17 - PROJ strings are translated without changing their meaning.
//! The generator renders one AST as PROJ text and, without parsing, as the reference Geodesy
//! text; `Plain::op` of the two must be the same operation.

use crate::harness::{hash_str, H};
use crate::json::J;
use crate::rng::Rng;
use crate::util::*;
use geodesy::authoring::*;

#[derive(Clone, Debug)]
struct PStep {
    name: String,
    params: Vec<(String, String)>,
    inv: bool,
    omit_fwd: bool,
    omit_inv: bool,
}

fn v(h: &H, idx: u64, sig: &str, d: J) {
    h.violation(idx, &format!("C17/{sig}"), d);
}

fn gen_step(rng: &mut Rng) -> PStep {
    let (name, params): (&str, Vec<(String, String)>) = match rng.below(11) {
        0 => ("utm", vec![("zone".into(), rng.int(28, 36).to_string())]),
        1 => (
            "tmerc",
            vec![
                ("lon_0".into(), rng.int(-10, 20).to_string()),
                ("k".into(), "0.9996".into()),
                ("x_0".into(), (rng.int(0, 9) * 100000).to_string()),
            ],
        ),
        2 => ("merc", vec![("lon_0".into(), rng.int(-10, 20).to_string()), ("k".into(), "0.99".into())]),
        3 => ("lcc", vec![("lat_1".into(), rng.int(30, 60).to_string()), ("lat_2".into(), rng.int(10, 29).to_string()), ("lon_0".into(), rng.int(-10, 20).to_string())]),
        4 => ("laea", vec![("lat_0".into(), rng.int(30, 60).to_string()), ("lon_0".into(), rng.int(-10, 20).to_string())]),
        5 => ("cart", vec![]),
        6 => (
            "helmert",
            vec![
                // (also numbers with a signed exponent: a + inside a value is not a PROJ prefix)
                ("x".into(), if rng.chance(0.2) { format!("{}e+1", rng.int(-9, 9)) } else { rng.int(-90, 90).to_string() }),
                ("y".into(), if rng.chance(0.2) { format!("{}.5e-1", rng.int(-9, 9)) } else { rng.int(-90, 90).to_string() }),
                ("z".into(), rng.int(-90, 90).to_string()),
                ("s".into(), if rng.chance(0.2) { format!("{}e+5", rng.int(-9, 9)) } else { (rng.int(-9, 9) * 100000).to_string() }),
            ],
        ),
        7 => ("axisswap", vec![("order".into(), rng.pick(&["2,1", "2,1,3", "1,-2", "3,1,2"]).to_string())]),
        8 => ("unitconvert", vec![("xy_in".into(), rng.pick(&["km", "deg", "m"]).to_string()), ("xy_out".into(), rng.pick(&["m", "rad", "ft"]).to_string())]),
        9 => ("noop", vec![]),
        _ => ("addone", vec![]),
    };
    let mut params = params;
    // ellipsoid, sometimes as a and rf
    if ["utm", "tmerc", "merc", "lcc", "laea", "cart"].contains(&name) {
        match rng.below(4) {
            0 => params.push(("ellps".into(), rng.pick(&["intl", "bessel", "WGS84", "clrk66"]).to_string())),
            1 => {
                params.push(("a".into(), "6378388".into()));
                params.push(("rf".into(), "297".into()));
            }
            _ => {}
        }
    }
    rng.shuffle(&mut params);
    PStep {
        name: name.into(),
        params,
        inv: rng.chance(0.35),
        omit_fwd: rng.chance(0.12),
        omit_inv: rng.chance(0.12),
    }
}

/// The Geodesy spelling of a step's own parameters
fn geodesy_params(params: &[(String, String)]) -> Vec<String> {
    let has_ellps = params.iter().any(|p| p.0 == "ellps");
    let a = params.iter().find(|p| p.0 == "a").map(|p| p.1.clone());
    let rf = params.iter().find(|p| p.0 == "rf").map(|p| p.1.clone());
    let mut out = Vec::new();
    let mut k_done = false;
    for (k, val) in params {
        if !has_ellps && a.is_some() && rf.is_some() && (k == "a" || k == "rf") {
            continue;
        }
        if k == "k" && !k_done {
            k_done = true;
            out.push(format!("k_0={val}"));
        } else if val.is_empty() {
            // a flag
            out.push(k.clone());
        } else {
            out.push(format!("{k}={val}"));
        }
    }
    if !has_ellps {
        if let (Some(a), Some(rf)) = (a, rf) {
            out.push(format!("ellps={a},{rf}"));
        }
    }
    out
}

fn reference(steps: &[PStep], globals: &[(String, String)], pipeline_inv: bool, pipeline: bool) -> String {
    let mut texts = Vec::new();
    for s in steps {
        let mut w = vec![s.name.clone()];
        // pipeline globals reach every step; step-local values come later and win
        w.extend(geodesy_params(globals));
        w.extend(geodesy_params(&s.params));
        let (mut inv, mut of, mut oi) = (s.inv, s.omit_fwd, s.omit_inv);
        if pipeline_inv {
            inv = !inv;
            std::mem::swap(&mut of, &mut oi);
        }
        if inv {
            w.push("inv".into());
        }
        if of && pipeline {
            w.push("omit_fwd".into());
        }
        if oi && pipeline {
            w.push("omit_inv".into());
        }
        texts.push(w.join(" "));
    }
    if pipeline_inv {
        texts.reverse();
    }
    let mut t = texts.join(" | ");
    if pipeline && texts.len() == 1 {
        // a PROJ pipeline of one step translates to a single step
        t = texts[0].clone();
    }
    t
}

fn render_proj(steps: &[PStep], globals: &[(String, String)], pipeline_inv: bool, pipeline: bool, rng: &mut Rng) -> String {
    let plus = |rng: &mut Rng, w: &str| if rng.chance(0.5) { format!("+{w}") } else { w.to_string() };
    let sp = |rng: &mut Rng| *rng.pick(&[" ", "  ", "\n", "\t", " \n ", "\r\n"]);
    let mut out = String::new();
    if rng.chance(0.15) {
        out += *rng.pick(&["# a PROJ pipeline\n", "# geographic -> UTM, valid for lat > 54 and lon < 16\n", "# <draft>\n"]);
    }
    if pipeline {
        let mut head: Vec<String> = vec!["proj=pipeline".into()];
        for (k, val) in globals {
            head.push(if val.is_empty() { k.clone() } else { format!("{k}={val}") });
        }
        if pipeline_inv {
            head.push("inv".into());
        }
        rng.shuffle(&mut head);
        for (i, w) in head.iter().enumerate() {
            if i > 0 {
                out += sp(rng);
            }
            out += &plus(rng, w);
        }
    }
    for s in steps {
        if pipeline {
            out += sp(rng);
            out += &plus(rng, "step");
            out += sp(rng);
        }
        let mut w: Vec<String> = vec![format!("proj={}", s.name)];
        for (k, val) in &s.params {
            w.push(format!("{k}={val}"));
        }
        if s.inv {
            w.push("inv".into());
        }
        if pipeline && s.omit_fwd {
            w.push("omit_fwd".into());
        }
        if pipeline && s.omit_inv {
            w.push("omit_inv".into());
        }
        rng.shuffle(&mut w);
        for (i, x) in w.iter().enumerate() {
            if i > 0 {
                out += sp(rng);
            }
            // spaces around the equals sign
            let x = if rng.chance(0.2) { x.replacen('=', " = ", 1) } else { x.clone() };
            out += &plus(rng, &x);
        }
        if rng.chance(0.1) {
            out += *rng.pick(&[" # comment\n", " # in -> out\n", " # x < 5\n"]);
        }
    }
    out
}

pub fn run(h: &H) {
    let n = h.budget(24_000, 2_400_000);
    for idx in h.cases(n) {
        let mut rng = h.rng(idx);
        match idx % 8 {
            7 => {
                h.guard(idx, "non-PROJ text, refusals", || other(h, idx, &mut rng));
            }
            6 => {
                let text = soup(&mut rng);
                h.distinct(hash_str(&text));
                h.guard(idx, &format!("parse_proj({text:?})"), || hostile(h, idx, &text));
            }
            _ => {
                h.guard(idx, "PROJ text against its reference translation", || translate(h, idx, &mut rng));
            }
        }
    }
}

fn translate(h: &H, idx: u64, rng: &mut Rng) {
    let pipeline = rng.chance(0.8);
    let n = if pipeline { 1 + rng.below(5) } else { 1 };
    let steps: Vec<PStep> = (0..n).map(|_| gen_step(rng)).collect();
    let pipeline_inv = pipeline && rng.chance(0.4);
    let mut globals: Vec<(String, String)> = Vec::new();
    if pipeline && rng.chance(0.5) {
        match rng.below(6) {
            4 => globals.push(("k".into(), "0.9996".into())),
            5 => {
                globals.push(("k".into(), "0.9992".into()));
                globals.push(("x_0".into(), "500000".into()));
            }
            0 => globals.push(("ellps".into(), rng.pick(&["GRS80", "intl", "krass"]).to_string())),
            1 => {
                globals.push(("a".into(), "6377397.155".into()));
                globals.push(("rf".into(), "299.1528128".into()));
            }
            2 => globals.push(("x".into(), "5".into())),
            _ => globals.push(("lon_0".into(), "3".into())),
        }
    }
    if pipeline && rng.chance(0.2) {
        // a global given as a flag reaches every step as well (utm: southern hemisphere; helmert:
        // exact rotation matrix)
        let flag = *rng.pick(&["south", "exact"]);
        let at = rng.below(globals.len() + 1);
        globals.insert(at, (flag.into(), String::new()));
    }
    let proj = render_proj(&steps, &globals, pipeline_inv, pipeline, rng);
    let want = reference(&steps, &globals, pipeline_inv, pipeline);
    h.distinct(hash_str(&proj));
    h.class(if !pipeline { "single-step" } else if pipeline_inv { "pipeline-inverted" } else { "pipeline" });
    if steps.iter().any(|s| s.omit_fwd || s.omit_inv) && pipeline {
        h.class(if pipeline_inv { "omit-under-inversion" } else { "omit-without-inversion" });
    }
    if !globals.is_empty() {
        h.class(&format!("globals/{}", globals[0].0));
    }
    if h.want_sample() && idx % 300 == 0 {
        h.sample(J::obj().set("proj", &proj).set("reference_geodesy", &want));
    }
    let detail = || J::obj().set("proj", &proj).set("reference_geodesy", &want).set("translation", parse_proj(&proj).unwrap_or_else(|e| format!("{e:?}")));
    // the translation is idempotent
    match parse_proj(&proj) {
        Ok(t) => match parse_proj(&t) {
            Ok(tt) if tt == t => {}
            other => {
                v(h, idx, "translation-not-idempotent", detail().set("second_pass", format!("{other:?}")));
                return;
            }
        },
        Err(e) => {
            v(h, idx, "valid-proj-text-refused", detail().set("error", format!("{e:?}")));
            return;
        }
    }
    let mut a = Plain::new();
    let mut b = Plain::new();
    let (ra, rb) = (a.op(&proj), b.op(&want));
    h.eval(1);
    let (oa, ob) = match (ra, rb) {
        (Ok(x), Ok(y)) => (x, y),
        (Err(_), Err(_)) => {
            h.class("both-rejected");
            return;
        }
        (x, y) => {
            v(h, idx, "one-instantiates-the-other-does-not", detail().set("proj_result", format!("{:?}", x.map(|_| ()))).set("reference_result", format!("{:?}", y.map(|_| ()))));
            return;
        }
    };
    let probes: Vec<Coor4D> = (0..3).map(|i| Coor4D([0.15 + 0.02 * i as f64, 0.95 - 0.05 * i as f64, 10.0 * i as f64, 2000.0])).collect();
    for d in [D::F, D::I] {
        let (mut x, mut y) = (probes.clone(), probes.clone());
        let cx = apply_set(&a, oa, d, &mut x);
        let cy = apply_set(&b, ob, d, &mut y);
        h.eval(probes.len() as u64);
        let same = (0..probes.len()).all(|i| same_bits(&x[i].0, &y[i].0)) && cx == cy;
        if !same {
            let what = if steps.iter().any(|s| s.omit_fwd != s.omit_inv) && pipeline {
                "omit"
            } else if !globals.is_empty() {
                "globals"
            } else {
                "general"
            };
            v(
                h,
                idx,
                &format!("meaning-changed/{what}/{}", if pipeline_inv { "pipeline-inverted" } else if pipeline { "pipeline" } else { "single-step" }),
                detail()
                    .set("direction", d.name())
                    .set("proj_result", J::Arr(x.iter().map(|c| J::coords(&c.0)).collect()))
                    .set("reference_result", J::Arr(y.iter().map(|c| J::coords(&c.0)).collect()))
                    .set("counts", J::coords(&[cx as f64, cy as f64])),
            );
            return;
        }
    }
    // same step lists, modulo the order of words within a step
    let norm = |v: &Vec<String>| -> Vec<Vec<String>> {
        v.iter()
            .map(|s| {
                let mut w: Vec<String> = s.split_whitespace().map(|x| x.to_string()).collect();
                w.sort();
                w
            })
            .collect()
    };
    let (sa, sb) = (a.steps(oa).cloned().unwrap_or_default(), b.steps(ob).cloned().unwrap_or_default());
    if norm(&sa) != norm(&sb) {
        v(h, idx, "step-lists-differ", detail().set("proj_steps", format!("{sa:?}")).set("reference_steps", format!("{sb:?}")));
    }
}

const SOUP: [&str; 64] = [
    "proj=utm", "+proj=utm", "proj=merc", "+proj=tmerc", "proj=pipeline", "+proj=pipeline", "step", "+step", "inv", "+inv",
    "proj=inv", "proj=", "proj", "+proj", "proj=step", "proj=pipeline", "zone=32", "+zone=32", "a=6378388", "rf=297",
    "+a=6378388", "+rf=297", "a=", "rf=", "+a=1", "+rf=0", "ellps=GRS80", "+ellps=intl", "k=0.9996", "k_0=1", "+k=", "omit_fwd",
    "+omit_inv", "init=epsg:4326", "+init=epsg:1", "# proj=utm", "#", "|", "x_0=1", "lat_0=1:2:3N", "é=1", "+", "++", "=", "+=1",
    "towgs84=1,2,3", "proj=cart", "proj=unitconvert", "xy_in=deg", "xy_out=km", "proj=axisswap", "order=2,1", "proj=helmert",
    "x=1", "convention=position_vector", "proj=noop", "proj=addone", "proj=pop", "v_1", "+v_2", "proj=push", "units=m", "no_defs", "+no_defs",
];

/// PROJ flavoured word soup: every construct of the translator in arbitrary order and number
fn soup(rng: &mut Rng) -> String {
    let n = rng.below(9);
    let mut s = String::new();
    for i in 0..n {
        if i > 0 || rng.chance(0.2) {
            s += *rng.pick(&[" ", " ", " ", "  ", "\t", "\n", " +", "\r\n"]);
        }
        s += *rng.pick(&SOUP);
    }
    s
}

/// The translator and the factory on hostile PROJ text: an answer, never a panic; and what
/// `Plain::op` makes of the text is what it makes of the translation
fn hostile(h: &H, idx: u64, text: &str) {
    h.eval(1);
    let translated = parse_proj(text);
    let mut ctx = Plain::new();
    let direct = ctx.op(text);
    match (&translated, &direct) {
        (Err(_), Ok(_)) => {
            v(h, idx, "hostile/refused-by-the-translator-but-instantiated", J::obj().set("text", text).set("translator", format!("{translated:?}")));
        }
        (Ok(t), _) => {
            h.class(if direct.is_ok() { "hostile/translated-and-instantiated" } else { "hostile/translated-and-refused" });
            if t.contains("proj") || t.contains('+') {
                // (soup with several proj= per step: the translation would be translated again)
                return;
            }
            let via = ctx.op(t);
            if via.is_ok() != direct.is_ok() {
                v(h, idx, "hostile/text-and-translation-disagree", J::obj().set("text", text).set("translation", t).set("direct", format!("{:?}", direct.as_ref().err())).set("via_translation", format!("{:?}", via.as_ref().err())));
                return;
            }
            if let (Ok(a), Ok(b)) = (direct, via) {
                for d in [D::F, D::I] {
                    let p = [0.2, 0.9, 5.0, 2000.0];
                    let (ra, ca) = apply1(&ctx, a, d, p);
                    let (rb, cb) = apply1(&ctx, b, d, p);
                    h.eval(2);
                    if !same_bits(&ra, &rb) || ca != cb {
                        v(h, idx, "hostile/text-and-translation-behave-differently", J::obj().set("text", text).set("translation", t).set("direction", d.name()));
                        return;
                    }
                }
            }
        }
        _ => h.class("hostile/refused"),
    }
}

fn other(h: &H, idx: u64, rng: &mut Rng) {
    // text that is not PROJ syntax passes through unchanged
    let plain_texts = [
        "helmert x=1 y=2 z=3 | cart inv | geo:out",
        "utm zone=32",
        "  geo:in | utm zone=32 inv  ",
        "addone\n| addone inv",
        "cart ellps=intl omit_fwd",
        "",
        "é𝐑 = $x(1)",
    ];
    for t in plain_texts {
        h.eval(1);
        match parse_proj(t) {
            Ok(x) if x == t => {}
            other => {
                v(h, idx, "non-proj-text-changed", J::obj().set("text", t).set("result", format!("{other:?}")));
                return;
            }
        }
    }
    h.class("pass-through/byte-identical");
    // Geodesy text that merely contains the letters "proj": behaviour unchanged
    let mentions = ["helmert x=3 # reprojected later", "addone omit_inv # proj", "utm zone=32 inv # proj=utm"];
    for t in mentions {
        let Ok(x) = parse_proj(t) else {
            v(h, idx, "non-proj-text-refused", J::obj().set("text", t));
            return;
        };
        let stripped = t.split('#').next().unwrap_or("").trim().to_string();
        let mut ctx = Minimal::new();
        let (Ok(a), Ok(b)) = (ctx.op(&x), ctx.op(&stripped)) else {
            v(h, idx, "non-proj-text-changed/behaviour", J::obj().set("text", t).set("translation", &x));
            return;
        };
        for d in [D::F, D::I] {
            let p = [0.2, 0.9, 5.0, 2000.0];
            let (ra, ca) = apply1(&ctx, a, d, p);
            let (rb, cb) = apply1(&ctx, b, d, p);
            h.eval(2);
            if !same_bits(&ra, &rb) || ca != cb {
                v(h, idx, "non-proj-text-changed/behaviour", J::obj().set("text", t).set("translation", &x).set("direction", d.name()));
                return;
            }
        }
        // as a step of a pipeline the omit flags matter: compare inside one
        let pa = format!("addone | {x} | addone");
        let pb = format!("addone | {stripped} | addone");
        if let (Ok(a), Ok(b)) = (ctx.op(&pa), ctx.op(&pb)) {
            for d in [D::F, D::I] {
                let p = [0.2, 0.9, 5.0, 2000.0];
                let (ra, _) = apply1(&ctx, a, d, p);
                let (rb, _) = apply1(&ctx, b, d, p);
                if !same_bits(&ra, &rb) {
                    v(h, idx, "non-proj-text-changed/behaviour-in-pipeline", J::obj().set("text", t).set("translation", &x).set("direction", d.name()));
                    return;
                }
            }
        }
    }
    h.class("pass-through/mentions-proj");
    // init clauses and nested pipelines are refused
    let refused = [
        format!("proj=pipeline step init=epsg:{} step proj=utm zone=32", rng.int(1000, 9999)),
        "+proj=pipeline +step +proj=pipeline +step +proj=utm +zone=32".to_string(),
        "proj=pipeline step proj=utm zone=32 step proj=pipeline".to_string(),
        "init=epsg:4326 proj=utm zone=32".to_string(),
        "+init=epsg:25832".to_string() + " +proj=noop",
    ];
    // an init clause at any position of a step, with or without + and modifiers around it
    let mut refused: Vec<String> = refused.to_vec();
    for _ in 0..3 {
        let mut words: Vec<String> = vec!["proj=utm".into(), "zone=32".into()];
        if rng.chance(0.5) {
            words.push("inv".into());
        }
        if rng.chance(0.3) {
            words.push("omit_fwd".into());
        }
        if rng.chance(0.3) {
            words.push("ellps=intl".into());
        }
        rng.shuffle(&mut words);
        let at = rng.below(words.len() + 1);
        words.insert(at, format!("init=epsg:{}", rng.int(1000, 9999)));
        let plus = rng.chance(0.5);
        let step: String = words.iter().map(|w| if plus { format!("+{w}") } else { w.clone() }).collect::<Vec<_>>().join(" ");
        refused.push(match rng.below(3) {
            0 => step,
            1 => format!("{}proj=pipeline {}step {step}", if plus { "+" } else { "" }, if plus { "+" } else { "" }),
            _ => format!("{p}proj=pipeline {p}step {p}proj=noop {p}step {step}", p = if plus { "+" } else { "" }),
        });
    }
    // a nested pipeline, its proj=pipeline element anywhere in its step
    for _ in 0..2 {
        let mut words: Vec<String> = vec!["proj=pipeline".into()];
        if rng.chance(0.6) {
            words.push("inv".into());
        }
        if rng.chance(0.4) {
            words.push("ellps=intl".into());
        }
        rng.shuffle(&mut words);
        let p = if rng.chance(0.5) { "+" } else { "" };
        let nested: String = words.iter().map(|w| format!("{p}{w}")).collect::<Vec<_>>().join(" ");
        refused.push(format!("{p}proj=pipeline {p}step {p}proj=utm {p}zone=32 {p}step {nested} {p}step {p}proj=utm {p}zone=33"));
    }
    for t in &refused {
        h.eval(1);
        h.distinct(hash_str(t));
        match parse_proj(t) {
            Err(Error::Unsupported(_)) => {}
            other => {
                v(h, idx, "unsupported-proj-construct-not-refused", J::obj().set("text", t).set("result", format!("{other:?}")));
                return;
            }
        }
        let mut ctx = Plain::new();
        if ctx.op(t).is_ok() {
            v(h, idx, "unsupported-proj-construct-instantiated", J::obj().set("text", t));
            return;
        }
    }
    h.class("refusals");
}
