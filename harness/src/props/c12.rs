//! C12 - the stack sub-language is the documented abstract machine.
//! Reference interpreter transcribed from Rumination 002; exhaustive over short programs,
//! random over long ones; the trace hook shows the stack depth after every step.

use crate::harness::{hash_str, H};
use crate::json::J;
use crate::rng::Rng;
use crate::util::*;
use geodesy::authoring::*;
use geodesy::verif::Event;

#[derive(Clone, Debug, PartialEq)]
pub enum Ins {
    Push(Vec<usize>),
    Pop(Vec<usize>),
    Flip(Vec<usize>),
    Roll(i64, i64),
    Unroll(i64, i64),
    Swap,
    LegacyPush([bool; 4]),
    LegacyPop([bool; 4]),
    /// a value changing, invertible step (index into VALUE_STEPS)
    Value(usize),
}

const VALUE_STEPS: [&str; 4] = [
    "addone",
    "helmert x=3 y=-7 z=11 s=100000",
    "axisswap order=2,1,4,3",
    "unitconvert xy_in=km xy_out=m z_in=cm z_out=m",
];

fn list(v: &[usize]) -> String {
    v.iter().map(|i| i.to_string()).collect::<Vec<_>>().join(",")
}

fn legacy(flags: &[bool; 4]) -> String {
    (0..4).filter(|i| flags[*i]).map(|i| format!(" v_{}", i + 1)).collect()
}

impl Ins {
    pub fn text(&self) -> String {
        match self {
            Ins::Push(v) => format!("stack push={}", list(v)),
            Ins::Pop(v) => format!("stack pop={}", list(v)),
            Ins::Flip(v) => format!("stack flip={}", list(v)),
            Ins::Roll(m, n) => format!("stack roll={m},{n}"),
            Ins::Unroll(m, n) => format!("stack unroll={m},{n}"),
            Ins::Swap => "stack swap".into(),
            Ins::LegacyPush(f) => format!("push{}", legacy(f)),
            Ins::LegacyPop(f) => format!("pop{}", legacy(f)),
            Ins::Value(i) => VALUE_STEPS[*i].to_string(),
        }
    }
}

/// The abstract machine of Rumination 002. The stack holds columns (one value per tuple).
pub struct Machine {
    pub stack: Vec<Vec<f64>>,
    pub unspecified: bool,
    pub depths: Vec<usize>,
}

fn roll(stack: &mut Vec<Vec<f64>>, m: i64, n: i64) -> bool {
    let m = m as usize;
    if m > stack.len() {
        return false;
    }
    let n = if n < 0 { m as i64 + n } else { n } as usize;
    let at = stack.len() - m;
    let mut sub: Vec<Vec<f64>> = stack.drain(at..).collect();
    // the n upper elements go below the m - n lower ones, each block keeping its order
    let k = n % m.max(1);
    sub.rotate_right(k);
    stack.extend(sub);
    true
}

impl Machine {
    fn stomp(ops: &mut [Coor4D]) {
        for o in ops.iter_mut() {
            *o = Coor4D([f64::NAN; 4]);
        }
    }

    /// Execute one instruction in direction `d` of the enclosing pipeline. Returns the count.
    pub fn exec(&mut self, ins: &Ins, d: D, ops: &mut Vec<Coor4D>, ctx: &Minimal, handles: &[OpHandle]) -> usize {
        let n = ops.len();
        // inverse: push <-> pop with reversed lists, roll <-> unroll, swap and flip unchanged
        let eff = match (ins, d) {
            (_, D::F) => ins.clone(),
            (Ins::Push(v), D::I) => Ins::Pop(v.iter().rev().copied().collect()),
            (Ins::Pop(v), D::I) => Ins::Push(v.iter().rev().copied().collect()),
            (Ins::Roll(m, k), D::I) => Ins::Unroll(*m, *k),
            (Ins::Unroll(m, k), D::I) => Ins::Roll(*m, *k),
            (Ins::LegacyPush(f), D::I) => Ins::LegacyPop(*f),
            (Ins::LegacyPop(f), D::I) => Ins::LegacyPush(*f),
            (other, D::I) => other.clone(),
        };
        let count = match &eff {
            Ins::Push(v) => {
                for i in v {
                    self.stack.push(ops.iter().map(|o| o[*i - 1]).collect());
                }
                n
            }
            Ins::Pop(v) => {
                if self.stack.len() < v.len() {
                    Self::stomp(ops);
                    0
                } else {
                    for i in v {
                        let col = self.stack.pop().unwrap();
                        for (o, x) in ops.iter_mut().zip(col.iter()) {
                            o[*i - 1] = *x;
                        }
                    }
                    n
                }
            }
            Ins::Flip(v) => {
                if self.stack.len() < v.len() {
                    Self::stomp(ops);
                    0
                } else {
                    let depth = self.stack.len();
                    for (j, i) in v.iter().enumerate() {
                        let col = &mut self.stack[depth - 1 - j];
                        for (o, x) in ops.iter_mut().zip(col.iter_mut()) {
                            std::mem::swap(&mut o[*i - 1], x);
                        }
                    }
                    n
                }
            }
            Ins::Roll(m, k) => {
                if roll(&mut self.stack, *m, *k) {
                    n
                } else {
                    Self::stomp(ops);
                    0
                }
            }
            Ins::Unroll(m, k) => {
                // unroll=m,n is roll=m,m-n (n counted from the bottom when negative)
                let k = if *k < 0 { *m + *k } else { *k };
                if roll(&mut self.stack, *m, *m - k) {
                    n
                } else {
                    Self::stomp(ops);
                    0
                }
            }
            Ins::Swap => {
                let s = self.stack.len();
                if s < 2 {
                    // left unspecified by the property
                    self.unspecified = true;
                } else {
                    self.stack.swap(s - 1, s - 2);
                }
                n
            }
            Ins::LegacyPush(f) => {
                for i in 0..4 {
                    if f[i] {
                        self.stack.push(ops.iter().map(|o| o[i]).collect());
                    }
                }
                n
            }
            Ins::LegacyPop(f) => {
                let mut c = n;
                for i in (0..4).rev() {
                    if !f[i] {
                        continue;
                    }
                    match self.stack.pop() {
                        Some(col) => {
                            for (o, x) in ops.iter_mut().zip(col.iter()) {
                                o[i] = *x;
                            }
                        }
                        None => {
                            // every tuple carries NaN (at least) in the element that could not
                            // be popped, and nothing is counted
                            for o in ops.iter_mut() {
                                o[i] = f64::NAN;
                            }
                            c = 0;
                            break;
                        }
                    }
                }
                c
            }
            Ins::Value(i) => apply_set(ctx, handles[*i], d, ops),
        };
        self.depths.push(self.stack.len());
        count
    }
}

/// The model self-tests against every example table of the documentation
fn self_test() -> Result<(), String> {
    let col = |x: f64| vec![x];
    let mk = |v: &[f64]| -> Vec<Vec<f64>> { v.iter().map(|x| col(*x)).collect() };
    let rows: [(&[f64], Ins, &[f64]); 9] = [
        (&[1., 2., 3., 4.], Ins::Roll(3, -2), &[1., 4., 2., 3.]),
        (&[1., 2., 3., 4.], Ins::Roll(3, 1), &[1., 4., 2., 3.]),
        (&[1., 2., 3., 4.], Ins::Roll(3, 2), &[1., 3., 4., 2.]),
        (&[1., 3., 4., 2.], Ins::Roll(3, 1), &[1., 2., 3., 4.]),
        (&[1., 2., 3., 4.], Ins::Unroll(3, 2), &[1., 4., 2., 3.]),
        (&[1., 2., 3., 4.], Ins::Unroll(3, -2), &[1., 3., 4., 2.]),
        (&[1., 3., 4., 2.], Ins::Unroll(3, 2), &[1., 2., 3., 4.]),
        (&[1., 2., 3., 4.], Ins::Roll(3, 2), &[1., 3., 4., 2.]),
        (&[1., 3., 4., 2.], Ins::Unroll(3, 2), &[1., 2., 3., 4.]),
    ];
    let ctx = Minimal::new();
    for (before, ins, after) in rows {
        let mut m = Machine { stack: mk(before), unspecified: false, depths: vec![] };
        let mut ops = vec![Coor4D([0.0; 4])];
        m.exec(&ins, D::F, &mut ops, &ctx, &[]);
        if m.stack != mk(after) {
            return Err(format!("documentation row {before:?} {} -> {after:?}: model gives {:?}", ins.text(), m.stack));
        }
    }
    // flip table
    let mut m = Machine { stack: mk(&[1., 2., 3., 4.]), unspecified: false, depths: vec![] };
    let mut ops = vec![Coor4D([5., 6., 7., 8.])];
    m.exec(&Ins::Flip(vec![1, 2]), D::F, &mut ops, &ctx, &[]);
    if m.stack != mk(&[1., 2., 6., 5.]) || ops[0].0 != [4., 3., 7., 8.] {
        return Err(format!("documentation flip row: model gives {:?} {:?}", m.stack, ops[0].0));
    }
    m.exec(&Ins::Flip(vec![1, 2]), D::F, &mut ops, &ctx, &[]);
    if m.stack != mk(&[1., 2., 3., 4.]) || ops[0].0 != [5., 6., 7., 8.] {
        return Err("documentation flip row 2".into());
    }
    // push=1,2 | pop=1,2 swaps the first two elements
    let mut m = Machine { stack: vec![], unspecified: false, depths: vec![] };
    let mut ops = vec![Coor4D([5., 6., 7., 8.])];
    m.exec(&Ins::Push(vec![1, 2]), D::F, &mut ops, &ctx, &[]);
    m.exec(&Ins::Pop(vec![1, 2]), D::F, &mut ops, &ctx, &[]);
    if ops[0].0 != [6., 5., 7., 8.] {
        return Err("documentation push=1,2 | pop=1,2".into());
    }
    Ok(())
}

fn index_lists(max_len: usize) -> Vec<Vec<usize>> {
    let mut out: Vec<Vec<usize>> = vec![];
    let mut cur: Vec<Vec<usize>> = vec![vec![]];
    for _ in 0..max_len {
        let mut next = vec![];
        for c in &cur {
            for i in 1..=4 {
                let mut n = c.clone();
                n.push(i);
                next.push(n);
            }
        }
        out.extend(next.iter().cloned());
        cur = next;
    }
    out
}

fn alphabet(full: bool) -> Vec<Ins> {
    let mut a = Vec::new();
    for l in index_lists(if full { 2 } else { 1 }) {
        a.push(Ins::Push(l.clone()));
        a.push(Ins::Pop(l.clone()));
        a.push(Ins::Flip(l));
    }
    let maxm = if full { 8 } else { 3 };
    for m in 1..=maxm {
        for n in (1 - m)..m {
            a.push(Ins::Roll(m, n));
            a.push(Ins::Unroll(m, n));
        }
    }
    a.push(Ins::Swap);
    let subsets: Vec<u8> = if full { (1..16).collect() } else { vec![1, 6, 15] };
    for s in subsets {
        let f = [s & 1 != 0, s & 2 != 0, s & 4 != 0, s & 8 != 0];
        a.push(Ins::LegacyPush(f));
        a.push(Ins::LegacyPop(f));
    }
    if !full {
        a.push(Ins::Value(0));
        a.push(Ins::Value(1));
    }
    a
}

fn random_ins(rng: &mut Rng, depth_hint: usize) -> Ins {
    let rl = |rng: &mut Rng| -> Vec<usize> {
        let k = 1 + rng.below(4);
        (0..k).map(|_| 1 + rng.below(4)).collect()
    };
    match rng.below(12) {
        0 | 1 => Ins::Push(rl(rng)),
        2 => Ins::Pop(rl(rng)),
        3 => Ins::Flip(rl(rng)),
        4 | 5 => {
            let m = 1 + rng.below(depth_hint.clamp(1, 8)) as i64;
            let n = rng.int(1 - m, m - 1);
            if rng.chance(0.5) {
                Ins::Roll(m, n)
            } else {
                Ins::Unroll(m, n)
            }
        }
        6 => Ins::Swap,
        7 => {
            let s = 1 + rng.below(15) as u8;
            Ins::LegacyPush([s & 1 != 0, s & 2 != 0, s & 4 != 0, s & 8 != 0])
        }
        8 => {
            let s = 1 + rng.below(15) as u8;
            Ins::LegacyPop([s & 1 != 0, s & 2 != 0, s & 4 != 0, s & 8 != 0])
        }
        _ => Ins::Value(rng.below(VALUE_STEPS.len())),
    }
}

pub fn run(h: &H) {
    if let Err(e) = self_test() {
        h.violation(u64::MAX, "HARNESS-PANIC/model-fails-documentation-examples", J::s(e));
        return;
    }
    h.class("model/self-test-against-documentation-tables");
    // ---- exhaustive: all programs of <= 2 instructions (full alphabet), 3 (reduced) ----
    let full = alphabet(true);
    let small = alphabet(false);
    let n1 = full.len() as u64;
    let n2 = n1 * n1;
    let n3 = (small.len() as u64).pow(3);
    let total = n1 + n2 + if h.quick() { 0 } else { n3 };
    h.extra("exhaustive_programs", J::Int(total as i64));
    h.extra("alphabet_full", J::Int(n1 as i64));
    h.extra("alphabet_reduced", J::Int(small.len() as i64));
    for e in h.my_share(total) {
        let prog: Vec<Ins> = if e < n1 {
            vec![full[e as usize].clone()]
        } else if e < n1 + n2 {
            let k = e - n1;
            vec![full[(k / n1) as usize].clone(), full[(k % n1) as usize].clone()]
        } else {
            let k = e - n1 - n2;
            let s = small.len() as u64;
            vec![
                small[(k / (s * s)) as usize].clone(),
                small[((k / s) % s) as usize].clone(),
                small[(k % s) as usize].clone(),
            ]
        };
        // the short programs run bare (underflow semantics) and after a full push
        let mut rng = h.rng(e);
        let text = prog.iter().map(|i| i.text()).collect::<Vec<_>>().join(" | ");
        h.guard(e, &text, || {
            program(h, e, &prog, &mut rng, "exhaustive");
            let mut pre = vec![Ins::Push(vec![1, 2, 3, 4])];
            pre.extend(prog.iter().cloned());
            program(h, e, &pre, &mut rng, "exhaustive-after-push");
        });
    }
    // ---- random long programs ------------------------------------------------------------
    let n = h.budget(16_000, 1_600_000);
    for idx in h.cases(n) {
        let id = idx + (1u64 << 40);
        let mut rng = h.rng(id);
        if idx % 16 == 15 {
            h.guard(id, "ill-formed stack sub-commands", || ill_formed(h, id, &mut rng));
            continue;
        }
        let len = 1 + rng.below(12);
        let mut prog = vec![];
        if rng.chance(0.7) {
            prog.push(Ins::Push(vec![1, 2, 3, 4]));
        }
        let mut hint = 4;
        for _ in 0..len {
            let i = random_ins(&mut rng, hint);
            if let Ins::Push(v) = &i {
                hint += v.len();
            }
            prog.push(i);
        }
        let text = prog.iter().map(|i| i.text()).collect::<Vec<_>>().join(" | ");
        h.guard(id, &text, || program(h, id, &prog, &mut rng, "random"));
    }
}

fn program(h: &H, idx: u64, prog: &[Ins], rng: &mut Rng, class: &str) {
    let mut text = prog.iter().map(|i| i.text()).collect::<Vec<_>>().join(" | ");
    if prog.len() == 1 {
        text += " | noop";
    }
    let mut ctx = Minimal::new();
    let op = match ctx.op(&text) {
        Ok(op) => op,
        Err(e) => {
            h.violation(idx, "C12/valid-program-rejected", J::obj().set("program", &text).set("error", format!("{e}")));
            return;
        }
    };
    let handles: Vec<OpHandle> = VALUE_STEPS.iter().map(|d| ctx.op(d).unwrap()).collect();
    h.class(&format!("programs/{class}"));
    h.distinct(hash_str(&text));
    if h.want_sample() && idx % 977 == 0 {
        h.sample(J::obj().set("program", &text));
    }
    for size in [0usize, 1, 3] {
        let set: Vec<Coor4D> = (0..size)
            .map(|i| Coor4D([11.0 + 100.0 * i as f64, 22.5 + rng.f(), -33.25 - i as f64, 44.125 * (i + 1) as f64]))
            .collect();
        for d in [D::F, D::I] {
            let mut m = Machine { stack: vec![], unspecified: false, depths: vec![] };
            let mut want = set.clone();
            let order: Vec<&Ins> = if d == D::F { prog.iter().collect() } else { prog.iter().rev().collect() };
            let mut want_n = usize::MAX;
            for ins in order {
                let c = m.exec(ins, d, &mut want, &ctx, &handles);
                want_n = want_n.min(c);
            }
            if want_n == usize::MAX {
                want_n = set.len();
            }
            if m.unspecified {
                h.class("excluded/swap-on-fewer-than-two");
                continue;
            }
            let mut got = set.clone();
            geodesy::verif::trace_start();
            let got_n = apply_set(&ctx, op, d, &mut got);
            let trace = geodesy::verif::trace_take();
            // a second application on the same handle: the stack must not leak
            let mut again = set.clone();
            let again_n = apply_set(&ctx, op, d, &mut again);
            h.eval(2);
            let detail = || {
                J::obj()
                    .set("program", &text)
                    .set("direction", d.name())
                    .set("operands", J::Arr(set.iter().map(|c| J::coords(&c.0)).collect()))
                    .set("library", J::Arr(got.iter().map(|c| J::coords(&c.0)).collect()))
                    .set("model", J::Arr(want.iter().map(|c| J::coords(&c.0)).collect()))
                    .set("library_count", got_n)
                    .set("model_count", want_n)
            };
            let same = (0..size).all(|i| same_bits(&got[i].0, &want[i].0));
            if !same {
                h.violation(idx, &format!("C12/operands-differ/{}", d.name()), detail());
                return;
            }
            if got_n != want_n {
                h.violation(idx, &format!("C12/count-differs/{}", d.name()), detail());
                return;
            }
            if want_n == 0 && size > 0 {
                h.class("underflow");
            }
            let leak = !(0..size).all(|i| same_bits(&again[i].0, &got[i].0)) || again_n != got_n;
            if leak {
                h.violation(
                    idx,
                    &format!("C12/second-application-differs/{}", d.name()),
                    detail().set("second", J::Arr(again.iter().map(|c| J::coords(&c.0)).collect())).set("second_count", again_n),
                );
                return;
            }
            // stack depth after every step, from the trace hook
            let depths: Vec<usize> = trace
                .iter()
                .filter_map(|e| match e {
                    Event::Step { stack_depth, .. } => Some(*stack_depth),
                    _ => None,
                })
                .collect();
            let mut model_depths = m.depths.clone();
            if prog.len() == 1 {
                // the padding noop
                if d == D::F {
                    model_depths.push(*model_depths.last().unwrap_or(&0));
                } else {
                    model_depths.insert(0, 0);
                }
            }
            h.class_n("trace/stack-depth-events", depths.len() as u64);
            if depths != model_depths {
                h.violation(
                    idx,
                    &format!("C12/stack-depth-differs/{}", d.name()),
                    detail().set("library_depths", format!("{depths:?}")).set("model_depths", format!("{model_depths:?}")),
                );
                return;
            }
        }
    }
}

fn ill_formed(h: &H, idx: u64, rng: &mut Rng) {
    let mut bad: Vec<String> = vec![
        "stack".into(),
        "stack push=1 pop=2".into(),
        "stack push=1 swap".into(),
        "stack roll=3,1 unroll=3,1".into(),
        "stack push=0".into(),
        "stack push=5".into(),
        "stack pop=1.5".into(),
        "stack flip=-1".into(),
        "stack push=".into(),
        "stack pop=".into(),
        "stack roll=3".into(),
        "stack roll=3,1,2".into(),
        "stack roll=2,2".into(),
        "stack roll=2,-2".into(),
        "stack roll=2,3".into(),
        "stack unroll=1,1".into(),
        "stack roll=2.5,1".into(),
        "stack roll=3,0.5".into(),
        "stack unroll=3,1.5".into(),
        "stack unroll=3,-0.5".into(),
        "stack unroll=2.5,1".into(),
        "stack roll=3,-1.5".into(),
        "stack unroll=0,0".into(),
        "stack roll=-3,1".into(),
        "stack push=a".into(),
        "stack flip=1,,2".into(),
    ];
    // two sub-commands in one step, in every combination and order
    let subs = ["push=1,2", "pop=1,2", "flip=1,2", "roll=3,1", "unroll=3,1", "swap", "drop"];
    for a in subs {
        for b in subs {
            if a != b {
                bad.push(format!("stack {a} {b}"));
            }
        }
    }
    // random ill-formed variations
    for _ in 0..8 {
        let m = rng.int(-3, 9);
        let n = rng.int(-12, 12);
        if n.abs() >= m {
            bad.push(format!("stack {}={m},{n}", if rng.chance(0.5) { "roll" } else { "unroll" }));
        }
        // a fraction in either position
        let (fm, fn_) = (rng.int(2, 8), rng.int(-7, 7));
        let frac = *rng.pick(&[0.5, 0.25, 0.999]);
        if rng.chance(0.5) {
            bad.push(format!("stack {}={},{}", if rng.chance(0.5) { "roll" } else { "unroll" }, fm as f64 + frac, fn_));
        } else if (fn_.abs() + 1) < fm {
            bad.push(format!("stack {}={},{}", if rng.chance(0.5) { "roll" } else { "unroll" }, fm, fn_ as f64 + frac * if fn_ < 0 { -1.0 } else { 1.0 }));
        }
        let i = *rng.pick(&[0i64, 5, 6, -1, -4, 17]);
        bad.push(format!("stack {}=1,{i}", rng.pick(&["push", "pop", "flip"])));
    }
    for b in bad {
        let text = format!("{b} | noop");
        let mut ctx = Minimal::new();
        h.eval(1);
        h.distinct(hash_str(&text));
        h.class("ill-formed");
        if ctx.op(&text).is_ok() {
            h.violation(idx, "C12/ill-formed-sub-command-accepted", J::obj().set("program", &text));
        }
    }
}
