//! Small helpers on top of the library's public API

use crate::geo::Ell;
use geodesy::authoring::*;

/// `Direction` is not Copy; this is
#[derive(Clone, Copy, Debug, PartialEq, Eq)]
pub enum D {
    F,
    I,
}

impl D {
    pub fn dir(self) -> Direction {
        match self {
            D::F => Fwd,
            D::I => Inv,
        }
    }
    pub fn flip(self) -> D {
        match self {
            D::F => D::I,
            D::I => D::F,
        }
    }
    pub fn name(self) -> &'static str {
        match self {
            D::F => "fwd",
            D::I => "inv",
        }
    }
}

pub fn c4(v: [f64; 4]) -> Coor4D {
    Coor4D(v)
}

/// Apply to a single tuple; returns (result, count)
pub fn apply1<C: Context>(ctx: &C, op: OpHandle, dir: D, v: [f64; 4]) -> ([f64; 4], usize) {
    let mut data = [Coor4D(v)];
    let n = ctx.apply(op, dir.dir(), &mut data).unwrap_or(usize::MAX);
    (data[0].0, n)
}

pub fn apply_set<C: Context>(ctx: &C, op: OpHandle, dir: D, v: &mut Vec<Coor4D>) -> usize {
    ctx.apply(op, dir.dir(), v).unwrap_or(usize::MAX)
}

/// Bit pattern with all NaNs folded into one
pub fn canon(x: f64) -> u64 {
    if x.is_nan() {
        0x7ff8_0000_0000_0000
    } else {
        x.to_bits()
    }
}

pub fn same_bits(a: &[f64], b: &[f64]) -> bool {
    a.len() == b.len() && a.iter().zip(b.iter()).all(|(x, y)| canon(*x) == canon(*y))
}

pub fn any_nan(a: &[f64]) -> bool {
    a.iter().any(|x| x.is_nan())
}

pub fn all_finite(a: &[f64]) -> bool {
    a.iter().all(|x| x.is_finite())
}

pub fn fmt4(v: &[f64]) -> String {
    let parts: Vec<String> = v.iter().map(|x| format!("{x:?}")).collect();
    format!("[{}]", parts.join(", "))
}

pub fn lib_ell(e: &Ell) -> Ellipsoid {
    Ellipsoid::new(e.a, e.f)
}

/// The error text of an `Error`, shortened, digits folded: for signatures
pub fn err_kind(e: &Error) -> &'static str {
    match e {
        Error::Io(_) => "Io",
        Error::General(_) => "General",
        Error::Syntax(_) => "Syntax",
        Error::Operator(_, _) => "Operator",
        Error::InvalidHeader { .. } => "InvalidHeader",
        Error::Unexpected { .. } => "Unexpected",
        Error::NotFound(_, _) => "NotFound",
        Error::Recursion(_, _) => "Recursion",
        Error::NonInvertible(_) => "NonInvertible",
        Error::MissingParam(_) => "MissingParam",
        Error::BadParam(_, _) => "BadParam",
        Error::Unsupported(_) => "Unsupported",
        Error::Invalid(_) => "Invalid",
        Error::Utf8Error(_) => "Utf8Error",
        Error::Unknown => "Unknown",
    }
}

/// Print a float so that parsing the text gives back exactly the same value
pub fn num(x: f64) -> String {
    format!("{x}")
}
